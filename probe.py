#!/usr/bin/env python3
"""debug helper: probe.py 'text with \\n' [scale]  -> prints the abstract elements"""
import sys, json
sys.path.insert(0, '/verif')
from verifpy import common, observe
txt = sys.argv[1].encode().decode('unicode_escape').encode('latin1').decode('utf8') if len(sys.argv) > 1 else sys.stdin.read()
case = {"input": txt}
if len(sys.argv) > 2:
    case.update(entry="settings", settings={"scale": float(sys.argv[2])})
o = observe.observe([case])[0]
print(o["out"], "w", o["doc"].get("w"), "h", o["doc"].get("h"), o.get("panic") or "")
for e in o["doc"]["elems"]:
    print(" ", e["k"], e["n"], e["fl"], e["cls"], "".join(map(chr, e["s"])), "g%d" % e["g"])
common.cleanup()
