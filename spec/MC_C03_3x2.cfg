CONSTANTS
  W = 3
  H = 2
  Alphabet = {32, 45, 124, 43, 97}
INIT MCInit
NEXT Next
INVARIANTS ModelC03 SpansPartitionCells MergeFixpoint Emit
CHECK_DEADLOCK FALSE
