---------------------------- MODULE MC_Enclose ----------------------------
(* Stage 14-15 on the model: fragments are scaled, then the free fragments are arranged into  *)
(* an enclosure forest by bounding boxes (fragment_tree.rs): each fragment, in document order, *)
(* is offered to the trees built so far, last tree first; a tree offers it to its children     *)
(* first (deepest first) and takes it itself if its bounding box fits; a {tag} text that is     *)
(* taken becomes class names of the taker instead of a child.                                  *)
(* Scene family: an outer box, an inner box inside it, one text of length len on a row above,   *)
(* inside or below the inner box.  Invariants: the fit decisions are the same at every scale     *)
(* (the text's extent scales with its position), and the text ends up with the innermost box     *)
(* that contains it (RefTagClasses on the model).                                               *)
EXTENDS Integers, Sequences, FiniteSets, TLC
CONSTANTS MaxW, MaxLen
VARIABLES a, b, t, len, row, done
vars == <<a, b, t, len, row, done>>
W == MaxW + 4
Init == /\ a \in 1..3 /\ b \in 4..(W - 1) /\ t \in 0..W /\ len \in 1..MaxLen /\ row \in {1, 3, 5} /\ done = FALSE
Next == ~done /\ done' = TRUE /\ UNCHANGED <<a, b, t, len, row>>

\* boxes in cell units x 2 (so that the text's quarter-cell anchor is an integer): <<x0, y0, x1, y1>>
Outer == <<1, 1, 2 * W + 1, 13>>                 \* rect through the cell centres
Inner == <<2 * a + 1, 5, 2 * b + 1, 9>>
\* Text::bounds: from the anchor (cell + 1/4, 3/4) to anchor.x + len cells, on one y
TextBox == LET y == 2 * row + 1 IN <<2 * t + 1, y, 2 * t + 1 + 2 * len, y>>        \* (1/4 cell rounded to the half-cell grid)
Scales == {<<1, 2>>, <<1, 1>>, <<3, 1>>, <<8, 1>>, <<10, 1>>, <<20, 1>>, <<75, 2>>}   \* num / den
Scaled(B, s) == <<B[1] * s[1], B[2] * s[1], B[3] * s[1], B[4] * s[1]>>                \* common denominator s[2] dropped
CanFit(B, o) == B[1] <= o[1] /\ B[2] <= o[2] /\ B[3] >= o[3] /\ B[4] >= o[4]
FitSameAtEveryScale ==
  \A s \in Scales : /\ CanFit(Scaled(Outer, s), Scaled(TextBox, s)) = CanFit(Outer, TextBox)
                    /\ CanFit(Scaled(Inner, s), Scaled(TextBox, s)) = CanFit(Inner, TextBox)

\* the forest algorithm on this scene.  Items in document order (top-left first): the outer box, then the text
\* if its row is above the inner box, then the inner box, then the text otherwise.
\* a tree: [box, tags (count of tag texts taken), kids (sequence of trees)]
Leaf(B) == [box |-> B, tags |-> 0, kids |-> <<>>]
\* offer the text to tree T (depth <= 2 here): returns <<taken, T'>>
OfferToLeaf(T, o) == IF CanFit(T.box, o) THEN <<TRUE, [T EXCEPT !.tags = @ + 1]>> ELSE <<FALSE, T>>
OfferDeepFirst(T, o) ==
  IF T.kids # <<>> /\ OfferToLeaf(T.kids[1], o)[1]
  THEN <<TRUE, [T EXCEPT !.kids = << OfferToLeaf(T.kids[1], o)[2] >>]>>
  ELSE OfferToLeaf(T, o)
\* the inner box offered to the outer tree becomes its child (it always fits: 1 <= a, b < W)
WithInner(T) == [T EXCEPT !.kids = << Leaf(Inner) >>]
Result ==
  IF row = 1 THEN WithInner(OfferDeepFirst(Leaf(Outer), TextBox)[2])      \* text before the inner box
  ELSE OfferDeepFirst(WithInner(Leaf(Outer)), TextBox)[2]
InnermostContaining == IF CanFit(Inner, TextBox) THEN "inner" ELSE IF CanFit(Outer, TextBox) THEN "outer" ELSE "none"
DeepestFirst ==
  LET R == Result IN
  /\ (InnermostContaining = "inner" => R.kids[1].tags = 1 /\ R.tags = 0)
  /\ (InnermostContaining = "outer" => R.tags = 1 /\ R.kids[1].tags = 0)
  /\ (InnermostContaining = "none" => R.tags = 0 /\ R.kids[1].tags = 0)
=============================================================================
