---------------------------- MODULE MC_Full ----------------------------
(* The whole conversion on the model: every text made of a W x H grid over Alphabet (which     *)
(* contains the double quote, a double-width character, drawing characters and a label)         *)
(* followed by one of a set of legend tails goes through Stages!FullDoc.  Invariants: the        *)
(* canvas and containment predicate of C12 (modulo the recorded finding about quoted text), the   *)
(* legend rules the reference predicts for well-formed tails; every behaviour is printed for       *)
(* replay: the real library must produce the same elements, the same canvas and the same rules.    *)
EXTENDS Stages, TLC, Json
CONSTANTS W, H, Alphabet
VARIABLES txt, done
Tails == { <<>>,
           <<10, 35, 32, 76, 101, 103, 101, 110, 100, 58, 10, 97, 32, 61, 32, 123, 120, 125, 10>>,                 \* \n# Legend:\na = {x}\n
           <<10, 35, 32, 76, 101, 103, 101, 110, 100, 58>>,                                                       \* \n# Legend:      (header on the last line, no line ending)
           <<10, 35, 32, 76, 101, 103, 101, 110, 100, 58, 32, 13, 10, 98, 61, 123, 121, 125, 32, 10, 99, 32, 61, 123, 122, 125>>,   \* header blank CRLF, b={y} blank LF c ={z}
           <<10, 35, 32, 76, 101, 103, 101, 110, 100, 58, 10, 32, 97, 61, 123, 120, 125>>,                         \* entry with a leading blank: no rule
           <<32, 35, 32, 76, 101, 103, 101, 110, 100, 58, 10, 97, 61, 123, 98, 125>>,                              \* mid-line header
           <<10, 35, 76, 101, 103, 101, 110, 100, 58, 10, 97, 61, 123, 120, 125>> }                                \* "#Legend:" is not the marker
Grid2Text(g) == FoldLeft(LAMBDA acc, i : acc \o (IF i = 1 THEN <<>> ELSE <<10>>) \o g[i], <<>>, [i \in 1..Len(g) |-> i])
\* the marker's text earlier in the drawing, where no legend parses: in a sentence, inside a quoted string
Heads == { <<>>,
           <<97, 32, 35, 32, 76, 101, 103, 101, 110, 100, 58, 32, 98, 10>>,                                        \* a # Legend: b\n
           <<34, 35, 32, 76, 101, 103, 101, 110, 100, 58, 34, 32, 45, 10>> }                                       \* "# Legend:" -\n
Init == (\E g \in [1..H -> [1..W -> Alphabet]] : \E tail \in Tails : \E head \in Heads : txt = head \o Grid2Text(g) \o tail) /\ done = FALSE
Next == ~done /\ done' = TRUE /\ UNCHANGED txt
Doc == FullDoc(txt)
AsEvent == [rows |-> TextLines(SplitLegend(txt).drawing),
            doc |-> [ModelDoc(Doc.out) EXCEPT !.wf = 1] @@ [w |-> Doc.w * MILLI, h |-> Doc.h * MILLI]]
\* C12 on the model, with the recorded finding: the canvas does not see quoted text
ModelC12x == C12_ExQuoted(AsEvent)
ModelC12 == ~HasQuoted(CellRows(AsEvent.rows)) => C12_OK(AsEvent)
\* a header followed by a line end is a legend, whatever follows: the drawing stops there
LegendCut == Doc.found => \A i \in 1..Len(AsEvent.rows) : ~IsLegendRow(AsEvent.rows[i])
\* property level (C16): a line that is the header - the marker at the start of the line, nothing but blanks after it - ends the
\* drawing, whatever the text above it contains
AllRows == TextLines(txt)
IsStrictHeaderRow(row) == Len(row) >= 9 /\ SubSeq(row, 1, 9) = LegendHeader /\ \A j \in 10..Len(row) : row[j] \in {32, 9}
FirstHeaderRow == LET idx == { r \in 1..Len(AllRows) : IsStrictHeaderRow(AllRows[r]) } IN IF idx = {} THEN 0 ELSE SetMin(idx)
HeaderLineHonoured == FirstHeaderRow > 0 => Doc.found /\ Len(AsEvent.rows) <= FirstHeaderRow - 1 + 1 /\
                          (Len(AsEvent.rows) = FirstHeaderRow => AsEvent.rows[FirstHeaderRow] = <<>>)
Emit == done => PrintT(<<"REPLAY", ToJson([text |-> txt, out |-> Doc.out, tags |-> Doc.tags, w |-> Doc.w, h |-> Doc.h, rules |-> Doc.rules])>>)
=============================================================================
