---------------------------- MODULE ServiceInd ----------------------------
(* A candidate inductive invariant of Service.tla: it explains WHY the safety invariants hold      *)
(* (a running table sits on the stack of its owner and only there; initialisers nest along          *)
(* strictly decreasing ranks of the acyclic dependency graph; a table's initialiser has started      *)
(* exactly when the table is not "uninit").  TLC checks IndInv as an ordinary invariant on the        *)
(* bounded instances of the C07 check; ServiceIndA.tla carries the Apalache set-up for the two        *)
(* induction obligations (the base case is discharged in seconds, the step did not finish within      *)
(* 40 minutes on this image - see DESIGN.md 9.6).                                                     *)
EXTENDS Service

\* initialisers nest along strictly decreasing ranks (the dependency graph is acyclic)
\* @type: Str => Int;
Rank(T) ==
  CASE T \in {"ASCII_PROPERTIES", "UNICODE_FRAGMENTS", "CIRCLE_ART_MAP"} -> 0
    [] T \in {"UNICODE_PROPERTIES", "CIRCLE_MAP"} -> 1
    [] T \in {"CIRCLES_SPAN", "QUARTER_ARC_SPAN", "HALF_ARC_SPAN", "THREE_QUARTERS_ARC_SPAN"} -> 2
    [] OTHER -> 3

TypeOK ==
  /\ tstate \in [Tables -> {"uninit", "running", "ready"}]
  /\ owner \in [Tables -> Threads \cup {"none"}]
  /\ DOMAIN stack = Threads /\ \A t \in Threads : Len(stack[t]) <= 4 /\ \A i \in DOMAIN stack[t] : stack[t][i] \in Tables
  /\ pc \in [Threads -> {"idle", "call"}]
  /\ arg \in [Threads -> Inputs \cup {0}]
  /\ DOMAIN ncalls = Threads /\ \A t \in Threads : ncalls[t] >= 0
  /\ inits \in [Tables -> {0, 1}]
  /\ \A r \in results : r[1] \in Inputs

IndInv ==
  /\ TypeOK
  /\ \A T \in Tables : inits[T] = (IF tstate[T] = "uninit" THEN 0 ELSE 1)
  /\ DepOrder /\ OneOwner
  \* a running table is on the stack of its owner, and only there
  /\ \A T \in Tables : tstate[T] = "running" => \E i \in DOMAIN stack[owner[T]] : stack[owner[T]][i] = T
  /\ \A t \in Threads : \A i \in DOMAIN stack[t] : tstate[stack[t][i]] = "running" /\ owner[stack[t][i]] = t
  \* nesting follows the dependency graph: ranks strictly decrease inwards
  /\ \A t \in Threads : \A i, j \in DOMAIN stack[t] : i < j => Rank(stack[t][i]) > Rank(stack[t][j])
  /\ \A t \in Threads : stack[t] # <<>> => pc[t] = "call"
  /\ \A t \in Threads : pc[t] = "call" => arg[t] \in Inputs
  /\ \A r \in results : r[2] = F(r[1])

Safety == OnceOnly /\ DepOrder /\ OneOwner /\ NoReentrancy /\ Deterministic
=============================================================================
