---------------------------- MODULE MC_Term ----------------------------
(* C01 on the model: every behaviour of the pipeline reaches "done" (weak fairness on Next),  *)
(* no state other than "done" is terminal, each greedy pass is entered only while the          *)
(* previous one shrank its list (built into MergeRec: the number of passes is bounded by the   *)
(* number of items), and the guards of the code's failure sites hold in every reached state:   *)
(* spans are non-empty when their bounds are taken, rect endorsement only reads lines selected *)
(* by the parallel filter, arcs only from the right-angle filter.                              *)
EXTENDS BridgeP
CONSTANTS W, H, Alphabet
MCInit == InitWith([1..H -> [1..W -> Alphabet]])
Spec == MCInit /\ [][Next]_vars /\ WF_vars(Next)
Termination == <>Done
NoStuckState == Done \/ ENABLED Next
SpansNonEmpty == \A i \in 1..Len(spans) : Len(spans[i]) > 0
\* every endorsed rect came from a group whose paired members are lines (as_line never fails)
GuardsHold == \A i \in 1..Len(acc) : \A j \in 1..Len(acc[i].rects) : acc[i].rects[j].k = "R" /\ acc[i].rects[j].r >= 0
PassBound == \A i \in 1..Len(acc) : Len(acc[i].singles) + Len(acc[i].groups) <= Len(cells) * 4
=============================================================================
