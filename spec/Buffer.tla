---------------------------- MODULE Buffer ----------------------------
(* The library's buffer as an object with a history (DESIGN.md 9.7).                               *)
(*                                                                                                  *)
(* `CellBuffer` is public: a caller can build one from a text, keep it, read and write its cells   *)
(* through the map it dereferences to, add legend rules, and render it any number of times with     *)
(* any settings.  The conversion entry points are the special case "build, render once, drop".      *)
(* The object's abstract state is what the text denoted - the cell map (here: a grid of code        *)
(* points), the legend rules and the quoted texts - and NOTHING ELSE: rendering is an observation.   *)
(*                                                                                                  *)
(*   Load(rows)         grid := rows                                                                *)
(*   Insert(x, y, c)    grid[y][x] := c      (the map's insert; cells beyond the present extent are   *)
(*   Remove(x, y)       grid[y][x] := blank   created, the extent grows)                              *)
(*   Render(settings)   no change of state; the document is Doc(grid, settings)                      *)
(*                                                                                                  *)
(* What the statements promise about such histories:                                                *)
(*   C07  a render depends on the state and the settings only: it equals the render of a fresh       *)
(*        object in the same state (no memory of earlier renders, earlier settings or earlier        *)
(*        contents);                                                                                 *)
(*   C11  two renders of one state at two scales differ by the factor only;                          *)
(*   C12  every render's page is the page of the state it renders (one cell of margin around the     *)
(*        cells that are there NOW, everything drawn inside).                                        *)
(* The trace specification BufferTrace.tla replays recorded histories of the real object against   *)
(* this machine: it keeps `grid` itself, from the recorded writes, and evaluates the three clauses  *)
(* on every recorded render.                                                                         *)
EXTENDS Integers, Sequences

SPc == 32
PadRow(row, n) == IF Len(row) >= n THEN row ELSE row \o [j \in 1..(n - Len(row)) |-> SPc]
PadRows(g, n) == IF Len(g) >= n THEN g ELSE g \o [j \in 1..(n - Len(g)) |-> <<>>]
\* the grid with cell (x, y) (0-based, as the code's Cell) holding c
SetCell(g, x, y, c) ==
  LET g2 == PadRows(g, y + 1)
      row == PadRow(g2[y + 1], x + 1)
  IN [g2 EXCEPT ![y + 1] = [row EXCEPT ![x + 1] = c]]
CellOf(g, x, y) == IF y + 1 \in 1..Len(g) /\ x + 1 \in 1..Len(g[y + 1]) THEN g[y + 1][x + 1] ELSE SPc

------------------------------------------------------------------------
(* the machine, for model checking: writes commute with the observation (a render between two       *)
(* writes changes nothing), and a state reached by any history equals the state built directly.      *)
CONSTANTS W, H, Chars
VARIABLES grid, renders
vars == <<grid, renders>>
Cells == (0..(W - 1)) \X (0..(H - 1))
Init == grid = <<>> /\ renders = 0
Insert(p, c) == grid' = SetCell(grid, p[1], p[2], c) /\ UNCHANGED renders
Remove(p) == CellOf(grid, p[1], p[2]) # SPc /\ grid' = SetCell(grid, p[1], p[2], SPc) /\ UNCHANGED renders
Render == renders < 2 /\ renders' = renders + 1 /\ UNCHANGED grid       \* an observation: the state does not move
Next == \/ \E p \in Cells, c \in Chars : Insert(p, c)
        \/ \E p \in Cells : Remove(p)
        \/ Render
Spec == Init /\ [][Next]_vars
\* the state is the function "what is in each cell", whatever the history that wrote it
Content(g) == [p \in Cells |-> CellOf(g, p[1], p[2])]
TypeOK == \A p \in Cells : Content(grid)[p] \in Chars \cup {SPc}
\* writes to different cells commute; a write is idempotent; remove undoes insert into a blank cell
WritesCommute ==
  \A p, q \in Cells, c, d \in Chars :
     p # q => Content(SetCell(SetCell(grid, p[1], p[2], c), q[1], q[2], d)) = Content(SetCell(SetCell(grid, q[1], q[2], d), p[1], p[2], c))
WriteIdempotent ==
  \A p \in Cells, c \in Chars :
     Content(SetCell(SetCell(grid, p[1], p[2], c), p[1], p[2], c)) = Content(SetCell(grid, p[1], p[2], c))
RemoveUndoes ==
  \A p \in Cells, c \in Chars :
     CellOf(grid, p[1], p[2]) = SPc => Content(SetCell(SetCell(grid, p[1], p[2], c), p[1], p[2], SPc)) = Content(grid)
=============================================================================
