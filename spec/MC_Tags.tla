---------------------------- MODULE MC_Tags ----------------------------
(* Stage 15 (enclosure and {tags}) on the whole-conversion model: a box of interior width N, or two  *)
(* nested boxes, whose interior row ranges over every string over Alphabet ({ } , labels, blank).      *)
(* Invariants: the model's document keeps C12; a string that is exactly a well-formed tag makes the       *)
(* innermost box carry exactly its names and shows no text; every behaviour is printed for replay, where   *)
(* the real library must produce the same elements with the same class names.                             *)
EXTENDS Stages, TLC, Json
CONSTANTS N, Alphabet
VARIABLES txt, inner, nested, done
Row(ch, n) == [i \in 1..n |-> ch]
Box1(s) == << <<43>> \o Row(45, N) \o <<43>>, <<124>> \o s \o <<124>>, <<43>> \o Row(45, N) \o <<43>> >>
Box2(s) == << <<43>> \o Row(45, N + 4) \o <<43>>,
              <<124, 32, 43>> \o Row(45, N) \o <<43, 32, 124>>,
              <<124, 32, 124>> \o s \o <<124, 32, 124>>,
              <<124, 32, 43>> \o Row(45, N) \o <<43, 32, 124>>,
              <<43>> \o Row(45, N + 4) \o <<43>> >>
Text(rs) == FoldLeft(LAMBDA acc, i : acc \o (IF i = 1 THEN <<>> ELSE <<10>>) \o rs[i], <<>>, [i \in 1..Len(rs) |-> i])
Init == /\ inner \in [1..N -> Alphabet] /\ nested \in BOOLEAN
        /\ txt = Text(IF nested THEN Box2(inner) ELSE Box1(inner)) /\ done = FALSE
Next == ~done /\ done' = TRUE /\ UNCHANGED <<txt, inner, nested>>
Doc == FullDoc(txt)
\* exactly a tag: "{" names "}" padded with blanks, names over the labels of the alphabet
Stripped == LET idx == { i \in 1..N : inner[i] # 32 } IN IF idx = {} THEN <<>> ELSE SubSeq(inner, SetMin(idx), SetMax(idx))
IsExactTag == Stripped # <<>> /\ TagNames(<<"text", 0, 0, Stripped, 0>>) # <<>> /\ Stripped[Len(Stripped)] = 125
              /\ Cardinality({ i \in 1..Len(Stripped) : Stripped[i] = 125 }) = 1
Rects == { i \in 1..Len(Doc.out) : Doc.out[i][1] = "rect" }
InnermostRect == CHOOSE i \in Rects : \A j \in Rects : Doc.out[i][4] <= Doc.out[j][4]
ExactTagStylesInnermost ==
  IsExactTag => /\ Doc.tags[InnermostRect] = TagNames(<<"text", 0, 0, Stripped, 0>>)
                /\ \A i \in 1..Len(Doc.out) : i # InnermostRect => Doc.tags[i] = <<>>
                /\ \A i \in 1..Len(Doc.out) : Doc.out[i][1] # "text"
Emit == done => PrintT(<<"REPLAY", ToJson([text |-> txt, out |-> Doc.out, tags |-> Doc.tags, w |-> Doc.w, h |-> Doc.h, rules |-> Doc.rules])>>)
=============================================================================
