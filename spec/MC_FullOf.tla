---------------------------- MODULE MC_FullOf ----------------------------
(* The whole conversion on the model for GIVEN texts: the texts of a corpus (bundled example      *)
(* paragraphs, generated families, inputs the drivers of the checks produced) are read from the    *)
(* file named by the environment variable TEXTS (one JSON record {"t": [code points]} per line);   *)
(* every text goes through Stages!FullDoc and the result is printed for comparison with what the    *)
(* real library produced for the same text (elements, class names, canvas, legend rules).  This is   *)
(* the model run "forwards" on inputs chosen by the code side, the complement of MC_Full / MC_Tags    *)
(* (inputs enumerated by TLC).                                                                        *)
EXTENDS Stages, TLC, Json, IOUtils
VARIABLES i, done
Texts == ndJsonDeserialize(IOEnv.TEXTS)
Init == i \in 1..Len(Texts) /\ done = FALSE
Next == ~done /\ done' = TRUE /\ UNCHANGED i
Doc == FullDoc(Texts[i].t)
\* the drawing part never contains the legend header line once a legend was found
LegendCut == Doc.found => \A k \in 1..Len(TextLines(SplitLegend(Texts[i].t).drawing)) :
                              ~IsLegendRow(TextLines(SplitLegend(Texts[i].t).drawing)[k])
Emit == done => PrintT(<<"REPLAY", ToJson([text |-> Texts[i].t, out |-> Doc.out, tags |-> Doc.tags, w |-> Doc.w, h |-> Doc.h, rules |-> Doc.rules])>>)
=============================================================================
