---------------------------- MODULE Lattice ----------------------------
(* Integer geometry on svgbob's lattice.  One lattice unit = 1/8 of a cell width; a cell is  *)
(* 8 units wide and 16 high.  Observed documents carry their numbers in 1/1000 lattice unit  *)
(* ("milli"); a number that sits on the lattice satisfies  m % 1000 = 0.                     *)
EXTENDS Integers, Sequences, FiniteSets

CW == 8          \* cell width
CH == 16         \* cell height
MILLI == 1000

Min2(a, b) == IF a < b THEN a ELSE b
Max2(a, b) == IF a > b THEN a ELSE b
Abs(a) == IF a < 0 THEN -a ELSE a
SetMax(S) == CHOOSE x \in S : \A y \in S : y <= x
SetMin(S) == CHOOSE x \in S : \A y \in S : x <= y
RangeOf(s) == { s[i] : i \in 1..Len(s) }

\* svgbob's point order: y first, then x
PLt(p, q) == p[2] < q[2] \/ (p[2] = q[2] /\ p[1] < q[1])
PLe(p, q) == p = q \/ PLt(p, q)
PMin(p, q) == IF PLe(p, q) THEN p ELSE q
PMax(p, q) == IF PLe(p, q) THEN q ELSE p

Cross(p1, p2, p3) == (p2[1] - p1[1]) * (p3[2] - p1[2]) - (p2[2] - p1[2]) * (p3[1] - p1[1])
Collinear(p1, p2, p3) == Cross(p1, p2, p3) = 0
InBox(pt, p1, p2) == /\ Min2(p1[1], p2[1]) <= pt[1] /\ pt[1] <= Max2(p1[1], p2[1])
                     /\ Min2(p1[2], p2[2]) <= pt[2] /\ pt[2] <= Max2(p1[2], p2[2])
OnSeg(pt, p1, p2) == Collinear(p1, p2, pt) /\ InBox(pt, p1, p2)

OnLattice(m) == m % MILLI = 0
AllOnLattice(ns) == \A i \in 1..Len(ns) : OnLattice(ns[i])
U(m) == m \div MILLI                      \* milli -> lattice units (exact when OnLattice)

\* half-cell unit decomposition of an axis-aligned stroke (lattice units): horizontal strokes
\* in steps of 4, vertical strokes in steps of 8.  A stroke that is not axis-aligned, or whose
\* ends are off the half-cell grid, decomposes into one marked tuple so that it can never equal
\* a set of genuine units.
HUnit(x, y) == <<x, y, x + 4, y>>
VUnit(x, y) == <<x, y, x, y + 8>>
SegUnits(x1, y1, x2, y2) ==
  IF y1 = y2 /\ x1 % 4 = 0 /\ x2 % 4 = 0 /\ y1 % 8 = 0
    THEN { HUnit(Min2(x1, x2) + 4 * i, y1) : i \in 0..(Abs(x2 - x1) \div 4 - 1) }
  ELSE IF x1 = x2 /\ y1 % 8 = 0 /\ y2 % 8 = 0 /\ x1 % 4 = 0
    THEN { VUnit(x1, Min2(y1, y2) + 8 * i) : i \in 0..(Abs(y2 - y1) \div 8 - 1) }
  ELSE { <<"offgrid", x1, y1, x2, y2>> }
=============================================================================
