---------------------------- MODULE MC_Assemble ----------------------------
(* Stage 16 (Assemble) on the model: children = [style if include_styles] o [defs if            *)
(* include_defs] o [backdrop if include_backdrop] o body, on a root with the canvas size or the  *)
(* overridden size.  Invariants: the order of the optional elements, and that each switch adds   *)
(* or removes exactly its own element and nothing else (SettingsVariant on the model).           *)
EXTENDS Integers, Sequences, FiniteSets, TLC
VARIABLES styles, defs, backdrop, body, ovr, done
E(nm) == <<nm, 0, 0>>
Bodies == { <<>>, <<E("rect")>>, <<E("line"), E("text")>>, <<E("g")>>, <<E("rect"), E("text"), E("g")>> }
Init == /\ styles \in BOOLEAN /\ defs \in BOOLEAN /\ backdrop \in BOOLEAN /\ body \in Bodies
        /\ ovr \in { <<0, 0>>, <<100, 40>> } /\ done = FALSE
Next == ~done /\ done' = TRUE /\ UNCHANGED <<styles, defs, backdrop, body, ovr>>
Canvas == <<8 * 10, 16 * 4>>
Assemble(s, d, b, bd, o) ==
  LET size == IF o = <<0, 0>> THEN Canvas ELSE o IN
  [w |-> size[1], h |-> size[2],
   children |-> (IF s THEN <<E("style")>> ELSE <<>>) \o (IF d THEN <<E("defs")>> ELSE <<>>)
                \o (IF b THEN << <<"backdrop", size[1], size[2]>> >> ELSE <<>>) \o bd]
Doc == Assemble(styles, defs, backdrop, body, ovr)
Remove(seq, x) == SelectSeq(seq, LAMBDA e : e # x)
AssembleOrder ==
  LET c == Doc.children n == Len(c) - Len(body) IN
  /\ SubSeq(c, n + 1, Len(c)) = body
  /\ \A i, j \in 1..n : i < j => ~(c[i] = E("defs") /\ c[j] = E("style")) /\ ~(c[j] \in {E("style"), E("defs")} /\ c[i] \notin {E("style"), E("defs")})
SwitchesIndependent ==
  /\ Assemble(~styles, defs, backdrop, body, ovr).children \in { Remove(Doc.children, E("style")), <<E("style")>> \o Doc.children }
  /\ Remove(Assemble(styles, ~defs, backdrop, body, ovr).children, E("defs")) = Remove(Doc.children, E("defs"))
  /\ Remove(Assemble(styles, defs, ~backdrop, body, ovr).children, <<"backdrop", Doc.w, Doc.h>>) = Remove(Doc.children, <<"backdrop", Doc.w, Doc.h>>)
  /\ Assemble(styles, defs, backdrop, body, <<100, 40>>).children = [i \in 1..Len(Doc.children) |->
        IF Doc.children[i] = <<"backdrop", Doc.w, Doc.h>> THEN <<"backdrop", 100, 40>> ELSE Doc.children[i]]
=============================================================================
