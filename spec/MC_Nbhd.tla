---------------------------- MODULE MC_Nbhd ----------------------------
(* One test per transition of the glyph tables: for every modelled character in the centre of *)
(* a 3 x 3 grid and every way of putting at most K of the modelled characters around it, the   *)
(* pipeline model runs and the document-level predicates (C09, C12, C05 soundness) must hold    *)
(* on the model's output; every behaviour is printed for replay into the real library, where    *)
(* the same predicates are evaluated by the trace specification and the stages are compared.     *)
(* Every rule of every behaviour table is exercised with its condition true and false, and every *)
(* pair of conditions (K = 2).                                                                  *)
EXTENDS BridgeP, Json
CONSTANTS K, Centres, Around
Pos == << <<1,1>>, <<1,2>>, <<1,3>>, <<2,1>>, <<2,3>>, <<3,1>>, <<3,2>>, <<3,3>> >>     \* <<row, column>> of the 8 neighbours
GridOf(ch, S, f) == [r \in 1..3 |-> [c \in 1..3 |->
   IF <<r, c>> = <<2, 2>> THEN ch
   ELSE IF \E i \in S : Pos[i] = <<r, c>> THEN f[CHOOSE i \in S : Pos[i] = <<r, c>>] ELSE 32]]
MCInit == \E ch \in Centres : \E S \in { T \in SUBSET (1..8) : Cardinality(T) <= K } : \E f \in [S -> Around] :
            InitWith({ GridOf(ch, S, f) })
ModelC09 == Done => C09_OK(ModelEvent)
ModelC05 == Done => C05s_OK(ModelEvent)
ModelC12 == Done => C12_With(rows, [ModelDoc(out) EXCEPT !.wf = 1] @@ [w |-> RefCanvasW(rows), h |-> RefCanvasH(rows)])
Emit == Done => PrintT(<<"REPLAY", ToJson([rows |-> rows, out |-> out])>>)
=============================================================================
