---------------------------- MODULE Cli ----------------------------
(* The command line tool as a protocol machine (crates/svgbob_cli/src/main.rs):               *)
(*   ParseArgs -> ReadInput -> MapSettings -> Convert -> WriteOutput -> Exit                   *)
(* with the fault actions missing file, input that is not text, unparsable number, unwritable output.  TLC enumerates   *)
(* every option subset x input mode x fault combination; the machine's outcome must equal the   *)
(* reference functions of CliRef, and every behaviour is printed as a scenario to be replayed   *)
(* against the real binary.                                                                    *)
EXTENDS CliRef, TLC, Json
VARIABLES sc, pc, exit, channel, wrote
vars == <<sc, pc, exit, channel, wrote>>
Scenarios == { s \in [opts : SUBSET AllOpts, inmode : {"file", "stdin", "inline"},
                      fault : SUBSET {"missing_file", "bad_utf8", "bad_number", "unwritable"}] : WellFormedScenario(s) }
Init == sc \in Scenarios /\ pc = "parse" /\ exit = -1 /\ channel = "none" /\ wrote = "nothing"
ParseArgs == pc = "parse" /\ pc' = "read" /\ UNCHANGED <<sc, exit, channel, wrote>>
ReadInput == /\ pc = "read"
             /\ IF "missing_file" \in sc.fault THEN pc' = "exit" /\ exit' = 1
                ELSE IF "bad_utf8" \in sc.fault THEN pc' = "exit" /\ exit' = 101      \* read_to_string(..).unwrap()
                ELSE pc' = "settings" /\ exit' = exit
             /\ UNCHANGED <<sc, channel, wrote>>
MapSettings == /\ pc = "settings"
               /\ IF "bad_number" \in sc.fault THEN pc' = "exit" /\ exit' = 1
                  ELSE pc' = "convert" /\ exit' = exit
               /\ UNCHANGED <<sc, channel, wrote>>
Convert == pc = "convert" /\ pc' = "write" /\ UNCHANGED <<sc, exit, channel, wrote>>
WriteOutput == /\ pc = "write" /\ pc' = "exit"
               /\ channel' = IF "o" \in sc.opts THEN "file" ELSE "stdout"
               /\ IF "unwritable" \in sc.fault THEN exit' = 2 /\ wrote' = "nothing"
                  ELSE exit' = 0 /\ wrote' = IF "o" \in sc.opts THEN "document" ELSE "document+newline"
               /\ UNCHANGED sc
Exit == pc = "exit" /\ pc' = "done" /\ UNCHANGED <<sc, exit, channel, wrote>>
Next == ParseArgs \/ ReadInput \/ MapSettings \/ Convert \/ WriteOutput \/ Exit
Spec == Init /\ [][Next]_vars /\ WF_vars(Next)
Done == pc = "done"
MachineMatchesReference ==
  Done => /\ exit = ExpectedExit(sc)
          /\ (exit = 0 => channel = ExpectedChannel(sc) /\ wrote # "nothing")
          /\ (exit # 0 => wrote = "nothing")                          \* no partial output
ExitIffSuccess == Done => ((exit = 0) <=> (sc.fault = {}))
Terminates == <>Done
SetToSeq(S) == LET RECURSIVE R(_) R(T) == IF T = {} THEN <<>> ELSE LET x == CHOOSE y \in T : TRUE IN <<x>> \o R(T \ {x}) IN R(S)
Emit == Done => PrintT(<<"REPLAY", ToJson([opts |-> SetToSeq(sc.opts), inmode |-> sc.inmode, fault |-> SetToSeq(sc.fault),
                                           exit |-> exit, channel |-> channel])>>)
=============================================================================
