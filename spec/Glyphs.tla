---------------------------- MODULE Glyphs ----------------------------
(* The drawing vocabulary, hand-transcribed from crates/svgbob/spec.md, Architecture.md and  *)
(* the tables in map/ascii_map.rs.  Characters are code points.  Coordinates are lattice     *)
(* units local to a cell (cell = 8 x 16); the 5 x 5 grid points of a cell are named a..y as  *)
(* in the documentation:                                                                      *)
(*        a b c d e                                                                           *)
(*        f g h i j                                                                           *)
(*        k l m n o                                                                           *)
(*        p q r s t                                                                           *)
(*        u v w x y                                                                           *)
(* Coverage of this transcription: the characters in `Modelled`.  Rules whose condition needs *)
(* a neighbour outside `Modelled` are not transcribed yet (named deviation): model-checking   *)
(* alphabets must be subsets of `Modelled`.                                                   *)
EXTENDS Lattice, Chars, UnicodeGlyphs

cSP == 32  cDASH == 45  cTILDE == 126  cBAR == 124  cCOLON == 58  cBANG == 33
cPLUS == 43  cDOT == 46  cAPOS == 39  cCOMMA == 44  cBQUOTE == 96  cUNDER == 95  cEQ == 61
cSLASH == 47  cBSLASH == 92  cLPAR == 40  cRPAR == 41
cGT == 62  cLT == 60  cCARET == 94  cv == 118  cV == 86  cSTAR == 42  co == 111  cO == 79  cX == 88  cHASH == 35
cQUOTE9 == 8217     \* the typographic apostrophe: a reduced copy of the apostrophe's rules

Modelled == {cSP, cDASH, cTILDE, cBAR, cCOLON, cBANG, cPLUS, cDOT, cAPOS, cCOMMA, cBQUOTE, cUNDER, cEQ,
             cSLASH, cBSLASH, cLPAR, cRPAR, cGT, cLT, cCARET, cv, cV, cSTAR, co, cO, cX, cHASH, cQUOTE9} \cup UnicodeChars

G(gx, gy) == <<gx * 2, gy * 4>>
pa == G(0,0) pb == G(1,0) pc == G(2,0) pd == G(3,0) pe == G(4,0)
pf == G(0,1) pg == G(1,1) ph == G(2,1) pi == G(3,1) pj == G(4,1)
pk == G(0,2) pl == G(1,2) pm == G(2,2) pn == G(3,2) po == G(4,2)
pp == G(0,3) pq == G(1,3) pr == G(2,3) ps == G(3,3) pt == G(4,3)
pu == G(0,4) pv == G(1,4) pw == G(2,4) px == G(3,4) py == G(4,4)
\* the same grid point in the cell dx columns right and dy rows down
Off(p, dx, dy) == <<p[1] + CW * dx, p[2] + CH * dy>>

\* fragments: k = "L" line (s <= e in point order, b = broken), "A" arc (radius r, sweep sw),
\* "T" cell text
Line(p1, p2)   == [k |-> "L", s |-> PMin(p1, p2), e |-> PMax(p1, p2), b |-> FALSE]
Broken(p1, p2) == [k |-> "L", s |-> PMin(p1, p2), e |-> PMax(p1, p2), b |-> TRUE]
Arc(p1, p2, rad) == IF PLe(p1, p2) THEN [k |-> "A", s |-> p1, e |-> p2, r |-> rad, sw |-> FALSE, mj |-> FALSE]
                    ELSE [k |-> "A", s |-> p2, e |-> p1, r |-> rad, sw |-> TRUE, mj |-> FALSE]
U2 == 4  U4 == 8  U6 == 12  U8 == 16  U16 == 32  B12 == 3
\* a small circle (bullet): centre, radius, filled
Circ(p, rad, filled) == [k |-> "C", c |-> p, r |-> rad, f |-> filled]
\* a filled box inside a cell (square bullet, block glyphs)
FilledBox(p1, p2) == [k |-> "R", s |-> p1, e |-> p2, r |-> 0, b |-> FALSE, f |-> TRUE]
\* a filled polygon (arrowhead): the sequence of its vertices
Poly(pts) == [k |-> "P", pts |-> pts]
AdjX(p, h) == <<p[1] + h, p[2]>>          \* adjust_x(h / 2): half a quarter-cell is one lattice unit
AdjY(p, h) == <<p[1], p[2] + h>>

STRONG == 4  MEDIUM == 3  WEAK == 2

\* signature: sequence of <<signal, fragments>>
Sig(ch) ==
  CASE ch = cDASH  -> << <<STRONG, <<Line(pk, po)>> >> >>
    [] ch = cTILDE -> << <<STRONG, <<Broken(pk, po)>> >> >>
    [] ch = cBAR   -> << <<STRONG, <<Line(pc, pw)>> >> >>
    [] ch = cCOLON -> << <<STRONG, <<Broken(pc, pw)>> >> >>
    [] ch = cBANG  -> << <<STRONG, <<Broken(pc, pw)>> >> >>
    [] ch = cPLUS  -> << <<MEDIUM, <<Line(pc, pw), Line(pk, po)>> >>,
                         <<WEAK, <<Line(pa, py), Line(pu, pe)>> >> >>
    [] ch = cDOT   -> << <<MEDIUM, <<Line(pm, pw)>> >>, <<WEAK, <<Line(pm, pk)>> >>,
                         <<WEAK, <<Line(pm, po)>> >> >>
    [] ch \in {cAPOS, cQUOTE9} -> << <<MEDIUM, <<Line(pc, ph)>> >>, <<WEAK, <<Line(pm, pk)>> >>,
                         <<WEAK, <<Line(pm, po)>> >> >>
    [] ch = cCOMMA -> << <<MEDIUM, <<Line(pm, pr)>> >>, <<WEAK, <<Line(pm, pk)>> >>,
                         <<WEAK, <<Line(pm, po)>> >> >>
    [] ch = cBQUOTE -> << <<MEDIUM, <<Line(pc, pm)>> >>, <<WEAK, <<Line(pm, pk)>> >>,
                         <<WEAK, <<Line(pm, po)>> >> >>
    [] ch = cUNDER -> << <<STRONG, <<Line(pu, py)>> >> >>
    [] ch = cEQ    -> << <<MEDIUM, <<Line(<<0, 6>>, <<8, 6>>), Line(<<0, 10>>, <<8, 10>>)>> >> >>
    [] ch = cSLASH -> << <<STRONG, <<Line(pu, pe)>> >> >>
    [] ch = cBSLASH -> << <<STRONG, <<Line(pa, py)>> >> >>
    [] ch = cLPAR  -> << <<MEDIUM, <<Arc(pe, py, U8)>> >> >>
    [] ch = cRPAR  -> << <<MEDIUM, <<Arc(pu, pa, U8)>> >> >>
    [] ch = cV     -> << <<MEDIUM, <<Poly(<<pf, pj, pw>>)>> >>, <<WEAK, <<Line(pm, pw)>> >> >>
    [] ch = cv     -> << <<MEDIUM, <<Poly(<<pf, pj, pw>>)>> >> >>
    [] ch = cCARET -> << <<MEDIUM, <<Poly(<<pp, pc, pt>>)>> >> >>
    [] ch = cGT    -> << <<MEDIUM, <<Poly(<<pf, po, pp>>)>> >> >>
    [] ch = cLT    -> << <<MEDIUM, <<Poly(<<pj, pk, pt>>)>> >> >>
    [] ch = cX     -> << <<STRONG, <<Line(pa, py), Line(pu, pe)>> >> >>
    [] ch = cHASH  -> << <<STRONG, <<FilledBox(pf, pt)>> >>, <<MEDIUM, <<Line(pc, pw), Line(pk, po)>> >>,
                         <<WEAK, <<Line(pa, py), Line(pu, pe)>> >> >>
    [] ch = cSTAR  -> << <<STRONG, <<Circ(pm, 3, TRUE)>> >>, <<MEDIUM, <<Line(pc, pw), Line(pk, po)>> >>,
                         <<WEAK, <<Line(pa, py), Line(pu, pe)>> >> >>
    [] ch = co     -> << <<MEDIUM, <<Circ(pm, 3, FALSE)>> >>, <<MEDIUM, <<Line(pk, po)>> >>, <<WEAK, <<Line(pc, pw)>> >>,
                         <<WEAK, <<Line(pa, py), Line(pu, pe)>> >> >>
    [] ch = cO     -> << <<MEDIUM, <<Circ(pm, 4, FALSE)>> >>, <<MEDIUM, <<Line(pk, po)>> >>, <<WEAK, <<Line(pc, pw)>> >>,
                         <<WEAK, <<Line(pa, py), Line(pu, pe)>> >> >>
    [] ch \in UnicodeChars -> << <<STRONG, UniFrags(ch)>> >>
    [] OTHER -> <<>>

\* Property::arcs_to: some signature arc runs from a to b in that direction (whatever its radius)
ArcsTo(ch, p1, p2) ==
  LET want == Arc(p1, p2, 1) IN
  \E i \in 1..Len(Sig(ch)) : \E j \in 1..Len(Sig(ch)[i][2]) :
     LET fr == Sig(ch)[i][2][j] IN fr.k = "A" /\ fr.s = want.s /\ fr.e = want.e /\ fr.sw = want.sw

\* Property::line_overlap_with_signal: some signature line of at least the required strength
\* contains both points
Overlap(ch, p1, p2, minsig) ==
  \E i \in 1..Len(Sig(ch)) : Sig(ch)[i][1] >= minsig /\
     \E j \in 1..Len(Sig(ch)[i][2]) :
        LET fr == Sig(ch)[i][2][j] IN fr.k = "L" /\ OnSeg(p1, fr.s, fr.e) /\ OnSeg(p2, fr.s, fr.e)
Med(ch, p1, p2) == Overlap(ch, p1, p2, MEDIUM)
Str(ch, p1, p2) == Overlap(ch, p1, p2, STRONG)
Wk(ch, p1, p2)  == Overlap(ch, p1, p2, WEAK)

\* behaviour: sequence of <<condition, fragments>>; N = the eight neighbour characters
Rules(ch, N) ==
  CASE ch = cDASH  -> << <<TRUE, <<Line(pk, po)>> >> >>
    [] ch = cTILDE -> << <<TRUE, <<Broken(pk, po)>> >> >>
    [] ch = cBAR   -> << <<N.bl # cSLASH /\ N.br # cBSLASH /\ N.tl # cBSLASH /\ N.tr # cSLASH, <<Line(pc, pw)>> >>,
                         <<Med(N.tr, pu, pv), <<Line(pc, pe)>> >>,
                         <<Med(N.tl, px, py), <<Line(pa, pc)>> >>,
                         <<Med(N.r, pu, pv), <<Line(pw, py)>> >>,
                         <<Med(N.l, px, py), <<Line(pu, pw)>> >>,
                         <<Str(N.r, pk, pl), <<Line(pm, po)>> >>,
                         <<Str(N.l, pn, po), <<Line(pk, pm)>> >>,
                         <<Med(N.bl, pe, pu), <<Line(pc, pm), Line(pm, pu)>> >>,
                         <<Med(N.br, pa, py), <<Line(pc, pm), Line(pm, py)>> >>,
                         <<Med(N.tl, pa, py) /\ Med(N.tr, pe, pu), <<Line(pa, pm), Line(pm, pw), Line(pm, pe)>> >> >>
    [] ch \in {cCOLON, cBANG} ->
                      << <<Str(N.t, pr, pw) \/ Str(N.b, pc, ph), <<Broken(pc, pw)>> >> >>
    [] ch = cPLUS  -> << <<Med(N.t, pr, pw), <<Line(pc, pm)>> >>, <<Med(N.b, pc, ph), <<Line(pm, pw)>> >>,
                         <<Med(N.l, pn, po), <<Line(pk, pm)>> >>, <<Med(N.r, pk, pl), <<Line(pm, po)>> >>,
                         <<Wk(N.l, pn, po), <<Line(pk, pm)>> >>, <<Wk(N.r, pk, pl), <<Line(pm, po)>> >>,
                         <<Med(N.tl, ps, py), <<Line(pa, pm)>> >>, <<Med(N.br, pa, pg), <<Line(pm, py)>> >>,
                         <<Med(N.tr, pq, pu), <<Line(pm, pe)>> >>, <<Med(N.bl, pe, pi), <<Line(pm, pu)>> >> >>
    [] ch = cDOT   -> << <<Str(N.b, pc, ph), <<Line(pr, pw)>> >>,
                         <<Str(N.bl, pe, pi) /\ Str(N.br, pa, pg), <<Line(pm, pu), Line(pm, py)>> >>,
                         <<Med(N.r, pk, pl) /\ Med(N.bl, pe, pi), <<Arc(po, pq, U4), Line(pq, pu)>> >>,
                         <<Med(N.r, pk, pl) /\ Med(N.br, pa, pg), <<Arc(po, ps, B12), Line(ps, py)>> >>,
                         <<Med(N.l, pn, po) /\ Med(N.br, pa, pg), <<Arc(ps, pk, U4), Line(ps, py)>> >>,
                         <<Med(N.l, pn, po) /\ Med(N.bl, pe, pi), <<Arc(pq, pk, B12), Line(pu, pq)>> >>,
                         <<ArcsTo(N.bl, pe, py), <<Arc(po, pq, U4), Line(pq, pu)>> >>,
                         <<ArcsTo(N.br, pu, pa), <<Arc(ps, pk, U4), Line(ps, py)>> >>,
                         <<N.l \in {cAPOS, cBQUOTE} /\ Med(N.br, pa, pm), <<Arc(py, Off(pa, -1, 0), U16)>> >>,
                         <<N.r = cAPOS /\ Med(N.bl, pe, pm), <<Arc(Off(pe, 1, 0), pu, U16)>> >>,
                         <<Med(N.t, pm, pw) /\ Med(N.bl, pe, pm), <<Arc(pq, ph, U8), Line(pc, ph), Line(pq, pu)>> >>,
                         <<Med(N.tr, pm, pu) /\ Med(N.bl, pe, pm), <<Line(pu, pe)>> >>,
                         <<Med(N.t, pm, pw) /\ Med(N.br, pa, pm), <<Line(pc, ph), Arc(ph, ps, U8), Line(ps, py)>> >>,
                         <<Med(N.r, pk, pl) /\ Med(N.b, pc, ph), <<Arc(po, pr, U2), Line(pr, pw)>> >>,
                         <<Med(N.r, pk, pl) /\ Med(N.bl, pc, ph), <<Arc(pm, Off(pc, -1, 1), U4), Line(pm, po)>> >>,
                         <<Med(N.l, pn, po) /\ Med(N.b, pc, ph), <<Arc(pr, pk, U2), Line(pr, pw)>> >>,
                         <<N.br # cBQUOTE /\ Med(N.l, pn, po) /\ Med(N.br, pc, ph), <<Arc(Off(pc, 1, 1), pm, U4), Line(pk, pm)>> >>,
                         <<Med(N.l, pu, py) /\ Med(N.r, pk, po), <<Line(pu, po)>> >>,
                         <<Med(N.l, pk, po) /\ Med(N.r, pu, py), <<Line(pk, py)>> >>,
                         <<N.l = cBQUOTE /\ N.br = cBQUOTE, <<Broken(Off(pc, -1, 0), Off(pc, 1, 1))>> >>,
                         <<N.r = cAPOS /\ N.bl = cAPOS, <<Broken(Off(pc, 1, 0), Off(pc, -1, 1))>> >> >>
    [] ch = cAPOS  -> << <<Str(N.t, pm, pw), <<Line(pc, ph)>> >>,
                         <<Med(N.tl, ps, py) /\ Med(N.r, pk, pl), <<Line(pa, pg), Arc(pg, po, U4)>> >>,
                         <<Med(N.tr, pu, pq) /\ Med(N.r, pk, pl), <<Line(pe, pi), Arc(pi, po, B12)>> >>,
                         <<Med(N.tr, pu, pq) /\ Med(N.l, pn, po), <<Arc(pk, pi, U4), Line(pi, pe)>> >>,
                         <<Med(N.tl, ps, py) /\ Med(N.l, pn, po), <<Arc(pk, pg, B12), Line(pg, pa)>> >>,
                         <<Med(N.tl, ps, py) /\ Med(N.tr, pu, pq), <<Line(pa, pm), Line(pm, pe)>> >>,
                         <<ArcsTo(N.tl, pe, py), <<Line(pa, pg), Arc(pg, po, U4)>> >>,
                         <<ArcsTo(N.tr, pu, pa), <<Arc(pk, pi, U4), Line(pi, pe)>> >>,
                         <<N.l = cDOT /\ N.tr = cSLASH, <<Arc(Off(pu, -1, 0), pe, U16)>> >>,
                         <<Med(N.r, pk, pl) /\ Med(N.t, pr, pw), <<Arc(ph, po, U2), Line(pc, ph)>> >>,
                         <<Med(N.r, pk, pl) /\ Med(N.tl, pr, pw), <<Arc(Off(pw, -1, -1), pm, U4), Line(pm, po)>> >>,
                         <<Med(N.l, pn, po) /\ Med(N.t, pr, pw), <<Arc(pk, ph, U2), Line(pc, ph)>> >>,
                         <<Med(N.l, pn, po) /\ Med(N.tr, pr, pw), <<Arc(pm, Off(pw, 1, -1), U4), Line(pk, pm)>> >>,
                         <<Med(N.l, pk, po) /\ Med(N.tr, pu, py), <<Line(pk, pe)>> >>,
                         <<Med(N.tl, pu, py) /\ Med(N.r, pk, po), <<Line(pa, po)>> >>,
                         <<N.l = cDOT /\ N.tr = cDOT, <<Broken(Off(pm, -1, 0), Off(pm, 1, -1))>> >>,
                         <<N.r = cDOT /\ N.tl = cDOT, <<Broken(Off(pm, -1, -1), Off(pm, 1, 0))>> >> >>
    [] ch = cQUOTE9 -> << <<Med(N.r, pk, pl) /\ Med(N.t, pr, pw), <<Arc(ph, po, U2), Line(pc, ph)>> >>,
                         <<Med(N.l, pn, po) /\ Med(N.t, pr, pw), <<Arc(pk, ph, U2), Line(pc, ph)>> >>,
                         <<Med(N.tl, ps, py) /\ Med(N.r, pk, pl), <<Line(pa, pg), Arc(pg, po, U4)>> >>,
                         <<Med(N.tr, pu, pq) /\ Med(N.r, pk, pl), <<Line(pe, pi), Arc(pi, po, B12)>> >>,
                         <<Med(N.tr, pu, pq) /\ Med(N.l, pn, po), <<Arc(pk, pi, U4), Line(pi, pe)>> >>,
                         <<Med(N.tl, ps, py) /\ Med(N.l, pn, po), <<Arc(pk, pg, B12), Line(pg, pa)>> >>,
                         <<Med(N.tl, ps, py) /\ Med(N.tr, pu, pq), <<Line(pa, pm), Line(pm, pe)>> >>,
                         <<ArcsTo(N.tl, pe, py), <<Line(pa, pg), Arc(pg, po, U4)>> >>,
                         <<ArcsTo(N.tr, pu, pa), <<Arc(pk, pi, U4), Line(pi, pe)>> >>,
                         <<Med(N.l, pk, po) /\ Med(N.tr, pu, py), <<Line(pk, pe)>> >>,
                         <<Med(N.tl, pu, py) /\ Med(N.r, pk, po), <<Line(pa, po)>> >>,
                         <<N.l = cDOT /\ N.tr = cDOT, <<Broken(Off(pm, -1, 0), Off(pm, 1, -1))>> >>,
                         <<N.r = cDOT /\ N.tl = cDOT, <<Broken(Off(pm, -1, -1), Off(pm, 1, 0))>> >> >>
    [] ch = cCOMMA -> << <<Med(N.r, pk, pl) /\ Med(N.b, pc, ph), <<Arc(po, pr, U2), Line(pr, pw)>> >>,
                         <<Med(N.r, pk, pl) /\ Med(N.bl, pe, pi), <<Arc(po, pq, U4), Line(pq, pu)>> >>,
                         <<ArcsTo(N.bl, pe, py), <<Arc(po, pq, U4), Line(pq, pu)>> >> >>
    [] ch = cBQUOTE -> << <<Med(N.r, pk, pl) /\ Med(N.t, pr, pw), <<Arc(ph, po, U2), Line(pc, ph)>> >>,
                          <<Med(N.tl, ps, py) /\ Med(N.r, pk, pl), <<Line(pa, pg), Arc(pg, po, U4)>> >>,
                          <<ArcsTo(N.tl, pe, py), <<Line(pa, pg), Arc(pg, po, U4)>> >>,
                          <<N.tl = cBSLASH /\ N.r = cDOT, <<Arc(pa, Off(py, 1, 0), U16)>> >>,
                          <<Med(N.tl, pu, py) /\ Med(N.r, pk, po), <<Line(pa, po)>> >>,
                          <<N.tl = cDOT /\ N.r = cDOT, <<Broken(Off(pm, -1, -1), Off(pm, 1, 0))>> >>,
                          <<N.t = cCOMMA /\ Med(N.r, pk, pl), <<Arc(ph, po, U2), Line(pc, ph)>> >> >>
    [] ch = cUNDER -> << <<TRUE, <<Line(pu, py)>> >>,
                         <<Str(N.l, pe, pu), <<Line(pu, Off(pu, -1, 0))>> >>,
                         <<Str(N.r, pa, py), <<Line(py, Off(py, 1, 0))>> >> >>
    [] ch = cSLASH -> << <<~Str(N.b, pc, ph), <<Line(pu, pe)>> >>,
                         <<Str(N.r, pk, pl), <<Line(pm, po)>> >>,
                         <<Str(N.l, pn, po), <<Line(pm, pk)>> >>,
                         <<Str(N.b, pc, ph), <<Line(pe, pm), Line(pm, pw)>> >> >>
    [] ch = cBSLASH -> << <<N.b # cBAR, <<Line(pa, py)>> >>,
                          <<Med(N.b, pc, pm), <<Line(pa, pm), Line(pm, pw)>> >>,
                          <<Str(N.r, pk, pl), <<Line(pm, po)>> >>,
                          <<Str(N.l, pn, po), <<Line(pm, pk)>> >> >>
    [] ch = cLPAR  -> << <<~Med(N.t, pr, pw) /\ ~Med(N.b, pc, ph), <<Arc(pe, py, U8)>> >>,
                         <<Med(N.b, pc, ph), <<Arc(pc, pw, U6)>> >>,
                         <<Med(N.l, pm, po) /\ Med(N.r, pk, pl), <<Line(pk, po)>> >> >>
    [] ch = cRPAR  -> << <<~Med(N.t, pr, pw) /\ ~Med(N.b, pc, ph), <<Arc(pu, pa, U8)>> >>,
                         <<Med(N.t, pr, pw) /\ Med(N.b, pc, ph), <<Arc(pw, pc, U6)>> >>,
                         <<Med(N.l, pm, po) /\ Med(N.r, pk, pl), <<Line(pk, po)>> >> >>
    [] ch = cEQ    -> << <<TRUE, <<Line(<<0, 6>>, <<8, 6>>), Line(<<0, 10>>, <<8, 10>>)>> >> >>
    [] ch \in {cV, cv} ->
         << <<Med(N.t, pr, pw), <<Poly(<<pf, pj, pw>>), Line(pc, ph)>> >>,
            <<Med(N.tl, ps, py), <<Poly(<<AdjX(pf, -1), ps, AdjY(pd, 1)>>), Line(pa, pg)>> >>,
            <<Med(N.tr, pu, pq), <<Poly(<<AdjX(pj, 1), pq, AdjY(pb, 1)>>), Line(pe, pi)>> >>,
            <<N.tl = cDOT, <<Poly(<<pf, po, pc>>)>> >>,
            <<N.tr = cDOT, <<Poly(<<pj, pk, pc>>)>> >>,
            <<Med(N.b, pc, ph) /\ (ch = cV \/ ~Med(N.t, pr, pw)), <<Line(pa, pw), Line(pw, pe)>> >> >>
    [] ch = cCARET ->
         << <<Med(N.b, pc, ph), <<Poly(<<pp, pc, pt>>), Line(pr, pw)>> >>,
            <<Med(N.br, pa, pg) /\ N.bl # cSLASH, <<Poly(<<AdjX(pt, 1), pg, AdjY(pv, -1)>>), Line(ps, py)>> >>,
            <<Med(N.bl, pe, pi) /\ N.br # cBSLASH, <<Poly(<<AdjX(pp, -1), pi, AdjY(px, -1)>>), Line(pu, pq)>> >>,
            <<Med(N.t, pr, pw) /\ ~Med(N.b, pc, ph), <<Line(pc, pu), Line(pc, py)>> >>,
            <<N.bl = cSLASH /\ N.br = cBSLASH, <<Line(pc, pu), Line(pc, py)>> >> >>
    [] ch = cGT ->
         << <<Med(N.l, pn, po), <<Poly(<<pf, po, pp>>)>> >>,
            <<Med(N.r, pk, pl) /\ ~Med(N.l, pn, po), <<Line(pf, po), Line(po, pp)>> >>,
            <<N.l = cBQUOTE, <<Poly(<<pf, po, pp>>)>> >>,
            <<N.l = cDOT, <<Poly(<<pf, po, pp>>)>> >>,
            <<N.l = cGT, <<Poly(<<pf, po, pp>>)>> >> >>
    [] ch = cHASH ->       \* the small filled box drawn for a diagonal neighbour has the one non-dyadic constant of the
                           \* tables: its vertices are the cell centre +-1.4 quarter steps in x (+-2.8 lattice units) and +-2
                           \* in y.  The lattice is integral, so the model records each x to the unit below (6.8 -> 6,
                           \* 1.2 -> 1), exactly as the comparison does with the real polygon (runner.real_tuples,
                           \* stages.frag): a deviation named here, confined to this one polygon.
         << <<Med(N.t, pr, pw) \/ Med(N.b, pc, ph) \/ Med(N.l, pn, po) \/ Med(N.r, pk, pl), <<FilledBox(pf, pt)>> >>,
            <<Med(N.tl, ps, py) \/ Med(N.br, pa, pg) \/ Med(N.bl, pu, pq) \/ Med(N.tr, pe, pi),
              <<Poly(<< <<6, 12>>, <<6, 4>>, <<1, 4>>, <<1, 12>> >>)>> >>,
            <<Med(N.t, pr, pw), <<Line(pc, ph)>> >>, <<Med(N.b, pc, ph), <<Line(pr, pw)>> >>,
            <<Str(N.tl, ps, py), <<Line(pa, pg)>> >>, <<Str(N.tr, pu, pq), <<Line(pe, pi)>> >>,
            <<Str(N.bl, pe, pi), <<Line(pu, pq)>> >>, <<Str(N.br, pa, pg), <<Line(ps, py)>> >> >>
    [] ch = cX ->
         << <<Str(N.l, pm, po), <<Line(pm, pk)>> >>, <<Str(N.r, pk, pl), <<Line(pm, po)>> >>,
            <<Str(N.t, pr, pw), <<Line(pm, pc)>> >>, <<Str(N.b, pc, ph), <<Line(pm, pw)>> >>,
            <<Str(N.tl, ps, py), <<Line(pm, pa)>> >>, <<Str(N.tr, pu, pq), <<Line(pm, pe)>> >>,
            <<Str(N.bl, pe, pi), <<Line(pm, pu)>> >>, <<Str(N.br, pa, pg), <<Line(pm, py)>> >> >>
    [] ch \in {cSTAR, co, cO} ->
         LET bullet == IF ch = cSTAR THEN Circ(pm, 3, TRUE) ELSE IF ch = co THEN Circ(pm, 3, FALSE) ELSE Circ(pm, 4, FALSE)
             attached == Str(N.t, pr, pw) \/ Str(N.b, pc, ph) \/ Str(N.l, pn, po) \/ Str(N.r, pk, pl) \/ Str(N.tl, ps, py)
                         \/ Str(N.br, pa, pg) \/ Str(N.bl, pu, pq) \/ Str(N.tr, pe, pi) IN
         << <<attached, <<bullet>> >>,
            <<Str(N.t, pr, pw), <<Line(pc, ph)>> >>, <<Str(N.b, pc, ph), <<Line(pw, pr)>> >> >>
         \o (IF ch = cSTAR THEN << <<Med(N.l, pn, po), <<Line(pk, pm)>> >>, <<Med(N.r, pk, pl), <<Line(pm, po)>> >> >> ELSE <<>>)
         \o << <<Str(N.tl, ps, py), <<Line(pa, pg)>> >>, <<Str(N.tr, pu, pq), <<Line(pe, pi)>> >>,
               <<Str(N.bl, pe, pi), <<Line(pu, pq)>> >>, <<Str(N.br, pa, pg), <<Line(ps, py)>> >> >>
    [] ch = cLT ->
         << <<Med(N.r, pk, pl), <<Poly(<<pj, pk, pt>>)>> >>,
            <<Med(N.l, pm, po) /\ ~Med(N.r, pk, pl), <<Line(pj, pk), Line(pk, pt)>> >>,
            <<N.r = cDOT, <<Poly(<<pj, pk, pt>>)>> >>,
            <<N.r = cAPOS, <<Poly(<<pj, pk, pt>>)>> >>,
            <<N.r = cLT, <<Poly(<<pj, pk, pt>>)>> >> >>
    [] ch \in UnicodeChars -> << <<TRUE, UniFrags(ch)>> >>
    [] OTHER -> <<>>

\* every fragment any rule of ch can draw (for C05's stroke envelope)
AllRuleFrags(ch) ==
  LET Nn == [tl |-> cSP, t |-> cSP, tr |-> cSP, l |-> cSP, r |-> cSP, bl |-> cSP, b |-> cSP, br |-> cSP]
      rs == Rules(ch, Nn)
  IN UNION { RangeOf(rs[i][2]) : i \in 1..Len(rs) }
=============================================================================
