---------------------------- MODULE Server ----------------------------
(* The HTTP server as a protocol machine, shaped like crates/svgbob_server/src/main.rs on axum /  *)
(* hyper / tokio: a long-lived process; every connection goes through the stages of the          *)
(* framework - parse the request head, route on (path, method), extract the body under the      *)
(* default body limit, decode it as UTF-8, call the library, write the response - each of them   *)
(* one action, so that requests of different clients interleave at every stage.  Conversions     *)
(* occupy one of Workers runtime threads while they run (a slow diagram delays others, it does   *)
(* not change their answers).  The handler keeps no state: the response of a request is a        *)
(* function of that request; a failing stage answers with an error status and ends this          *)
(* connection only; a panic inside the handler is caught per task by the runtime (modelled: the  *)
(* connection is closed, the process lives on) - the library never panics by C01, so that action *)
(* is enabled only under the constant LibMayPanic, which the checked configuration sets FALSE.    *)
(*                                                                                                *)
(* Requests are abstracted to the classes of ServerRef (what the drivers send): "get",            *)
(* "post_ok", "post_badutf8", "post_oversize", "other_method", "other_path", "malformed".        *)
EXTENDS ServerRef, TLC
CONSTANTS Clients, MaxReq
Workers == 2
LibMayPanic == FALSE
VARIABLES orphans,   \* conversions still running on a runtime thread although their client has left
          conn,      \* per client: the connection's stage and the request class it carries
          sent,      \* per client: requests issued so far
          busy,      \* number of runtime threads inside a conversion
          log,       \* completed exchanges <<class, status>>
          alive
vars == <<conn, sent, busy, log, alive, orphans>>
Idle == [stage |-> "idle", class |-> "none", status |-> 0]
Init == conn = [c \in Clients |-> Idle] /\ sent = [c \in Clients |-> 0] /\ busy = 0 /\ log = {} /\ alive = TRUE /\ orphans = 0

\* a client writes a request (one in flight per client)
Send(c) == /\ alive /\ conn[c].stage = "idle" /\ sent[c] < MaxReq
           /\ \E cl \in ReqClasses : conn' = [conn EXCEPT ![c] = [stage |-> "received", class |-> cl, status |-> 0]]
           /\ sent' = [sent EXCEPT ![c] = @ + 1] /\ UNCHANGED <<busy, log, alive, orphans>>
Answer(c, st) == conn' = [conn EXCEPT ![c] = [@ EXCEPT !.stage = "answered", !.status = st]]
\* hyper parses the request line and the headers: what is not HTTP is answered 400 or the connection is closed
ParseHead(c) == /\ alive /\ conn[c].stage = "received"
                /\ IF conn[c].class = "malformed" THEN \E st \in {400, 0} : Answer(c, st)
                   ELSE conn' = [conn EXCEPT ![c].stage = "parsed"]
                /\ UNCHANGED <<sent, busy, log, alive, orphans>>
\* the router: only "/" is routed (404 otherwise), with GET and POST (405 otherwise)
Route(c) == /\ alive /\ conn[c].stage = "parsed"
            /\ CASE conn[c].class = "other_path" -> Answer(c, 404)
                 [] conn[c].class = "other_method" -> Answer(c, 405)
                 [] conn[c].class = "get" -> Answer(c, 200)                        \* hello(): name and version
                 [] OTHER -> conn' = [conn EXCEPT ![c].stage = "routed"]
            /\ UNCHANGED <<sent, busy, log, alive, orphans>>
\* the Bytes extractor under the default body limit of 2 MiB
Extract(c) == /\ alive /\ conn[c].stage = "routed"
              /\ IF conn[c].class = "post_oversize" THEN Answer(c, 413) ELSE conn' = [conn EXCEPT ![c].stage = "extracted"]
              /\ UNCHANGED <<sent, busy, log, alive, orphans>>
\* text_to_svgbob: String::from_utf8, else 400
Decode(c) == /\ alive /\ conn[c].stage = "extracted"
             /\ IF conn[c].class = "post_badutf8" THEN Answer(c, 400) ELSE conn' = [conn EXCEPT ![c].stage = "decoded"]
             /\ UNCHANGED <<sent, busy, log, alive, orphans>>
\* svgbob::to_svg on a runtime thread: begins when a thread is free, ends by C01
ConvertBegin(c) == /\ alive /\ conn[c].stage = "decoded" /\ busy < Workers
                   /\ conn' = [conn EXCEPT ![c].stage = "converting"] /\ busy' = busy + 1
                   /\ UNCHANGED <<sent, log, alive, orphans>>
ConvertEnd(c) == /\ alive /\ conn[c].stage = "converting"
                 /\ Answer(c, 200) /\ busy' = busy - 1 /\ UNCHANGED <<sent, log, alive, orphans>>
\* a panic of the handler: the task is dropped, the connection closed without a response
ConvertPanic(c) == /\ LibMayPanic /\ alive /\ conn[c].stage = "converting"
                   /\ Answer(c, 0) /\ busy' = busy - 1 /\ UNCHANGED <<sent, log, alive, orphans>>
\* the response is written (or the connection closed) and the exchange is complete
Respond(c) == /\ alive /\ conn[c].stage = "answered"
              /\ log' = log \cup { <<conn[c].class, conn[c].status>> }
              /\ conn' = [conn EXCEPT ![c] = Idle] /\ UNCHANGED <<sent, busy, alive, orphans>>
\* clients that misbehave politely (the drivers' stalled uploads, clients that leave before their answer, connections reset before
\* anything is sent): a client may drop its connection at any stage.  Nothing of it remains - except a conversion that is already
\* running, which runs on as an orphan and gives its thread back when it ends (OrphanEnd).  An upload that stalls is a connection
\* that stays in "received" until its client leaves: it holds no thread.
Leave(c) == /\ alive /\ conn[c].stage \notin {"idle", "answered"}
            /\ conn' = [conn EXCEPT ![c] = Idle]
            /\ orphans' = IF conn[c].stage = "converting" THEN orphans + 1 ELSE orphans
            /\ UNCHANGED <<sent, busy, log, alive>>
OrphanEnd == /\ alive /\ orphans > 0 /\ orphans' = orphans - 1 /\ busy' = busy - 1 /\ UNCHANGED <<conn, sent, log, alive>>
Step(c) == Send(c) \/ ParseHead(c) \/ Route(c) \/ Extract(c) \/ Decode(c) \/ ConvertBegin(c) \/ ConvertEnd(c)
           \/ ConvertPanic(c) \/ Respond(c)
\* (Leave is the environment's choice: no fairness on it; a runtime thread always finishes what it is doing)
Next == (\E c \in Clients : Step(c) \/ Leave(c)) \/ OrphanEnd
Spec == Init /\ [][Next]_vars /\ (\A c \in Clients : WF_vars(Step(c))) /\ WF_vars(OrphanEnd)

TypeOK == /\ busy \in 0..Workers /\ alive \in BOOLEAN /\ orphans \in 0..Workers
          /\ \A c \in Clients : conn[c].stage \in {"idle", "received", "parsed", "routed", "extracted", "decoded",
                                                   "converting", "answered"}
ResponseIsFunctionOfRequest == \A e1, e2 \in log : (e1[1] = e2[1] /\ e1[1] # "malformed") => e1[2] = e2[2]
ResponsesAllowed == \A e \in log : e[2] \in AllowedStatus(e[1])
ServerAlive == alive
\* threads inside a conversion are exactly the connections in that stage
BusyCounts == busy = Cardinality({ c \in Clients : conn[c].stage = "converting" }) + orphans
\* a client that leaves takes no thread with it for good: whenever nobody converts and no orphan runs, every thread is free
NoThreadLost == (orphans = 0 /\ \A c \in Clients : conn[c].stage # "converting") => busy = 0
AllAnswered == <>(\A c \in Clients : sent[c] = MaxReq /\ conn[c].stage = "idle")
=============================================================================
