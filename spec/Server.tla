---------------------------- MODULE Server ----------------------------
(* The HTTP server as a protocol machine (crates/svgbob_server/src/main.rs): a long-lived       *)
(* process, clients with one request in flight each, requests of the classes of ServerRef,      *)
(* answered in any order.  The server keeps no state between requests, so every response is      *)
(* the function of its own request; no request class has a transition that stops the server.     *)
EXTENDS ServerRef, TLC
CONSTANTS Clients, MaxReq
VARIABLES inflight, sent, log, alive
vars == <<inflight, sent, log, alive>>
Init == inflight = [c \in Clients |-> "none"] /\ sent = [c \in Clients |-> 0] /\ log = {} /\ alive = TRUE
Send(c) == /\ alive /\ inflight[c] = "none" /\ sent[c] < MaxReq
           /\ \E cl \in ReqClasses : inflight' = [inflight EXCEPT ![c] = cl]
           /\ sent' = [sent EXCEPT ![c] = @ + 1] /\ UNCHANGED <<log, alive>>
\* the handler: total on every class (a rejected request is answered with an error status, the process lives on)
Handle(cl) == CHOOSE s \in AllowedStatus(cl) : s # 0
Respond(c) == /\ alive /\ inflight[c] # "none"
              /\ log' = log \cup { <<inflight[c], Handle(inflight[c])>> }
              /\ inflight' = [inflight EXCEPT ![c] = "none"] /\ UNCHANGED <<sent, alive>>
Next == \E c \in Clients : Send(c) \/ Respond(c)
Spec == Init /\ [][Next]_vars /\ WF_vars(Next)
ResponseIsFunctionOfRequest == \A e1, e2 \in log : e1[1] = e2[1] => e1[2] = e2[2]
ResponsesAllowed == \A e \in log : e[2] \in AllowedStatus(e[1])
ServerAlive == alive
AllAnswered == <>(\A c \in Clients : sent[c] = MaxReq /\ inflight[c] = "none")
=============================================================================
