---------------------------- MODULE Stages ----------------------------
(* The outer stages of a conversion around the span pipeline of PipelineOps, on the input     *)
(* TEXT (a sequence of code points):                                                          *)
(*   1  SplitLegend   cell_buffer.rs From<&str>: the first "# Legend:" anywhere in the text;   *)
(*                    if the legend grammar (util.rs parser) accepts what follows, the text     *)
(*                    before it is the drawing and the entries are CSS rules; otherwise the      *)
(*                    whole text is drawn                                                       *)
(*   2  ExpandRows    str::lines + one filler after every double-width character                 *)
(*   3  Unquote       escape_line: quoted regions become blanks, their content quoted texts      *)
(*   4-12             PipelineOps!Output on the blanked cell rows                                *)
(*   13 AppendQuoted  the quoted texts as free text elements at their opening quote              *)
(*   16 Assemble      canvas = (last occupied column + 2, last occupied row + 2) cells, where a   *)
(*                    double-width character occupies two columns and quoted text none           *)
(*                    (known finding F-C12-quoted-canvas), minimal 2 x 2 for an empty drawing      *)
EXTENDS Bridge

------------------------------------------------------------------------
(* stage 1: the legend grammar, as a recogniser over code points                              *)
LegendMark == <<35, 32, 76, 101, 103, 101, 110, 100, 58>>          \* "# Legend:"
Tl(t, i) == IF i \in 1..Len(t) THEN t[i] ELSE -1
FindSub(t, pat) == LET idx == { i \in 1..(Len(t) - Len(pat) + 1) : SubSeq(t, i, i + Len(pat) - 1) = pat } IN
                   IF idx = {} THEN 0 ELSE SetMin(idx)
SkipBlanks(t, i) == LET idx == { j \in i..Len(t) : t[j] \notin {32, 9} } IN IF idx = {} THEN Len(t) + 1 ELSE SetMin(idx)
NewlineLen(t, i) == IF Tl(t, i) = 13 /\ Tl(t, i + 1) = 10 THEN 2 ELSE IF Tl(t, i) \in {13, 10} THEN 1 ELSE 0
\* "#" blanks "Legend:" blanks (newline | end of text), starting at the '#': position after the header, or 0
HeaderEnd(t, i) ==
  LET j1 == SkipBlanks(t, i + 1) IN
  IF SubSeq(t, j1, Min2(Len(t), j1 + 6)) # <<76, 101, 103, 101, 110, 100, 58>> THEN 0
  ELSE LET j2 == SkipBlanks(t, j1 + 7) nl == NewlineLen(t, j2) IN
       IF nl > 0 THEN j2 + nl ELSE IF j2 = Len(t) + 1 THEN j2 ELSE 0        \* a line ending, or the end of the text
IdentEnd(t, i) == IF ~(Tl(t, i) >= 0 /\ IdentStart(Tl(t, i)) /\ Tl(t, i) < 128) THEN i
                  ELSE LET idx == { j \in (i + 1)..(Len(t) + 1) : ~(Tl(t, j) >= 0 /\ Tl(t, j) < 128 /\ IdentRest(Tl(t, j))) } IN SetMin(idx)
\* name blanks "=" blanks "{" (anything but braces)* "}" at i: [ok, name, decl, next]
EntryAt(t, i) ==
  LET e1 == IdentEnd(t, i) j == SkipBlanks(t, e1) j2 == SkipBlanks(t, j + 1)
      stop == LET idx == { q \in (j2 + 1)..Len(t) : t[q] \in {123, 125} } IN IF idx = {} THEN 0 ELSE SetMin(idx) IN
  IF e1 > i /\ Tl(t, j) = 61 /\ Tl(t, j2) = 123 /\ stop > 0 /\ t[stop] = 125
  THEN [ok |-> TRUE, name |-> SubSeq(t, i, e1 - 1), decl |-> SubSeq(t, j2 + 1, stop - 1), next |-> stop + 1]
  ELSE [ok |-> FALSE, name |-> <<>>, decl |-> <<>>, next |-> i]
\* separator between entries: blanks, then a line ending
SepEnd(t, i) == LET j == SkipBlanks(t, i) nl == NewlineLen(t, j) IN IF nl = 0 THEN 0 ELSE j + nl
EntriesFrom(t, i0) ==
  LET RECURSIVE More(_, _)
      More(pos, acc) == LET s == SepEnd(t, pos) IN
                        IF s = 0 THEN acc
                        ELSE LET e == EntryAt(t, s) IN IF e.ok THEN More(e.next, Append(acc, <<e.name, e.decl>>)) ELSE acc
      first == EntryAt(t, i0)
  IN IF first.ok THEN More(first.next, << <<first.name, first.decl>> >>) ELSE <<>>
\* the legend starts at the first occurrence of the marker from which a legend parses (a header followed by a line ending
\* or the end of the text); an earlier occurrence inside a sentence or a quoted string belongs to the drawing
SplitLegend(t) ==
  LET occ == { i \in 1..(Len(t) - Len(LegendMark) + 1) : SubSeq(t, i, i + Len(LegendMark) - 1) = LegendMark /\ HeaderEnd(t, i) # 0 }
      loc == IF occ = {} THEN 0 ELSE SetMin(occ) IN
  IF loc = 0 THEN [drawing |-> t, rules |-> <<>>, found |-> FALSE]
  ELSE [drawing |-> SubSeq(t, 1, loc - 1), rules |-> EntriesFrom(t, HeaderEnd(t, loc)), found |-> TRUE]

------------------------------------------------------------------------
(* stage 2: rows (str::lines: rows end at LF, one CR before the LF is dropped, a final line   *)
(* without terminator counts)                                                               *)
TextLines(t) ==
  LET step(st, c) == IF c = 10 THEN [done |-> Append(st.done, StripCRRow(st.cur)), cur |-> <<>>]
                               ELSE [st EXCEPT !.cur = Append(st.cur, c)]
      st == FoldLeft(step, [done |-> <<>>, cur |-> <<>>], t)
  IN IF st.cur = <<>> THEN st.done ELSE Append(st.done, st.cur)

------------------------------------------------------------------------
(* stage 15: enclosure (fragment_tree.rs).  The free elements, in order, are arranged into a forest by       *)
(* bounding boxes: each one is offered to the trees built so far, the last tree first; a tree offers it to    *)
(* its children first (deepest first) and takes it itself if its bounding box fits; a text that parses as a    *)
(* {tag} and is taken becomes class names of the taker and disappears; anything else becomes its last child.   *)
(* Passes are repeated over the top-level trees while their number shrinks.  Elements are the tuples of         *)
(* PipelineOps!Strip (lattice units, scale 8).                                                                *)
TupleBox(t) ==
  CASE t[1] = "line" -> <<Min2(t[2], t[4]), Min2(t[3], t[5]), Max2(t[2], t[4]), Max2(t[3], t[5])>>
    [] t[1] = "rect" -> <<t[2], t[3], t[2] + t[4], t[3] + t[5]>>
    [] t[1] = "path" -> <<Min2(t[2], t[6]), Min2(t[3], t[7]), Max2(t[2], t[6]), Max2(t[3], t[7])>>
    [] t[1] = "circle" -> <<t[2] - t[4], t[3] - t[4], t[2] + t[4], t[3] + t[4]>>
    [] t[1] = "text" -> <<t[2], t[3], t[2] + CW * TextWidth(t[4]), t[3]>>
    [] OTHER -> LET n == (Len(t) - 2) \div 2 xs == { t[2 * i] : i \in 1..n } ys == { t[2 * i + 1] : i \in 1..n } IN      \* polygon
                <<SetMin(xs), SetMin(ys), SetMax(xs), SetMax(ys)>>
Fits(B, o) == B[1] <= o[1] /\ B[2] <= o[2] /\ B[3] >= o[3] /\ B[4] >= o[4]
\* the class names of a text that starts with {name,name,...} (the tag parser does not look at what follows)
TagNames(t) ==
  IF t[1] # "text" \/ Len(t[4]) = 0 \/ t[4][1] # 123 THEN <<>>
  ELSE LET s == t[4]
           RECURSIVE Names(_, _)
           Names(i, acc) == LET e == IdentEnd(s, i) IN
                            IF e = i THEN <<>>                                          \* no identifier here: not a tag
                            ELSE IF Tl(s, e) = 44 THEN Names(e + 1, Append(acc, SubSeq(s, i, e - 1)))
                            ELSE IF Tl(s, e) = 125 THEN Append(acc, SubSeq(s, i, e - 1))
                            ELSE <<>>
       IN Names(2, <<>>)
EncloseAll(items) ==
  LET n == Len(items)
      box == [i \in 1..n |-> TupleBox(items[i])]
      tagsOf == [i \in 1..n |-> TagNames(items[i])]
      RECURSIVE DeepFirst(_, _, _)
      DeepFirst(kids, node, x) ==        \* the node of the tree rooted at `node` that takes x, or 0
        LET RECURSIVE Kid(_)
            Kid(j) == IF j > Len(kids[node]) THEN 0
                      ELSE LET r == DeepFirst(kids, kids[node][j], x) IN IF r # 0 THEN r ELSE Kid(j + 1)
            viaKid == Kid(1)
        IN IF viaKid # 0 THEN viaKid ELSE IF Fits(box[node], box[x]) THEN node ELSE 0
      Offer(st, x) ==
        LET RECURSIVE FromLast(_)
            FromLast(j) == IF j = 0 THEN 0 ELSE LET r == DeepFirst(st.kids, st.top[j], x) IN IF r # 0 THEN r ELSE FromLast(j - 1)
            c == FromLast(Len(st.top))
        IN IF c = 0 THEN [st EXCEPT !.top = Append(@, x)]
           ELSE IF tagsOf[x] # <<>> THEN [st EXCEPT !.cls[c] = @ \o tagsOf[x], !.gone = @ \cup {x}]
           ELSE [st EXCEPT !.kids[c] = Append(@, x)]
      Pass(st) == FoldLeft(Offer, [st EXCEPT !.top = <<>>], st.top)
      RECURSIVE Passes(_)
      Passes(st) == LET st2 == Pass(st) IN IF Len(st2.top) < Len(st.top) THEN Passes(st2) ELSE st2
  IN Passes([top |-> [i \in 1..n |-> i], kids |-> [i \in 1..n |-> <<>>], cls |-> [i \in 1..n |-> <<>>], gone |-> {}])

------------------------------------------------------------------------
(* stages 3, 13, 16                                                                          *)
FullDoc(t) ==
  LET sl == SplitLegend(t)
      crs == CellRows(TextLines(sl.drawing))
      blanked == [r \in 1..Len(crs) |-> MechBlank(crs[r])]
      quoted == FoldLeft(LAMBDA acc, r : acc \o [i \in 1..Len(QuotedTexts(crs[r], r)) |->
                     LET q == QuotedTexts(crs[r], r)[i] IN <<"text", q[1], q[2], q[3], 0>>], <<>>, [r \in 1..Len(crs) |-> r])
      cellset == CellSeq(blanked)
      lastx == IF cellset = <<>> THEN 0 ELSE SetMax({ cellset[i][1] + (IF WideCp(cellset[i][3]) THEN 1 ELSE 0) : i \in 1..Len(cellset) })
      lasty == IF cellset = <<>> THEN 0 ELSE SetMax({ cellset[i][2] : i \in 1..Len(cellset) })
      all == Output(blanked)
      free == SelectSeq(all, LAMBDA tp : tp[Len(tp)] = 0) \o quoted
      grouped == SelectSeq(all, LAMBDA tp : tp[Len(tp)] = 1)
      enc == EncloseAll(free)
      kept == { i \in 1..Len(free) : i \notin enc.gone }
      keptSeq == SelectSeq([i \in 1..Len(free) |-> i], LAMBDA i : i \in kept)
  IN [w |-> (lastx + 2) * CW, h |-> (lasty + 2) * CH,
      out |-> [j \in 1..Len(keptSeq) |-> free[keptSeq[j]]] \o grouped,
      tags |-> [j \in 1..Len(keptSeq) |-> enc.cls[keptSeq[j]]] \o [j \in 1..Len(grouped) |-> <<>>],
      rules |-> sl.rules, found |-> sl.found]
=============================================================================
