---------------------------- MODULE Elems ----------------------------
(* Accessors for the abstract document recorded from the real code (DESIGN.md 3.1).         *)
(* An element is a record [k, n, role, fl, cls, s, g]: kind, numbers in milli lattice units, *)
(* per-number role (0 = x-like, 1 = y-like, 2 = length), flags, class tokens, code points of *)
(* the character data, group number (0 = not inside a <g>).                                  *)
EXTENDS Lattice, Chars, SequencesExt

IsLine(e) == e.k = "line"
IsRect(e) == e.k = "rect"
IsText(e) == e.k = "text"
IsCircle(e) == e.k = "circle"
IsPath(e) == e.k = "path"
IsPolygon(e) == e.k = "polygon"
HasCls(e, c) == \E i \in 1..Len(e.cls) : e.cls[i] = c
ElemsOf(doc) == doc.elems
Idx(doc) == 1..Len(doc.elems)
OfKind(doc, k) == { i \in Idx(doc) : doc.elems[i].k = k }

\* a plain line has no marker class
MarkerClasses == {"start_marked_arrow", "end_marked_arrow", "start_marked_diamond", "end_marked_diamond",
                  "start_marked_circle", "end_marked_circle", "start_marked_open_circle",
                  "end_marked_open_circle", "start_marked_big_open_circle", "end_marked_big_open_circle"}
IsPlainLine(e) == IsLine(e) /\ \A i \in 1..Len(e.cls) : e.cls[i] \notin MarkerClasses
IsBroken(e) == HasCls(e, "broken")
IsSolid(e) == HasCls(e, "solid")

\* stroke units (half-cell segments) of an element, in lattice units; exactness is required
ElemExact(e) == AllOnLattice(e.n)
LineUnits(e) == SegUnits(U(e.n[1]), U(e.n[2]), U(e.n[3]), U(e.n[4]))
RectUnits(e) ==
  LET x == U(e.n[1]) y == U(e.n[2]) w == U(e.n[3]) h == U(e.n[4]) IN
  SegUnits(x, y, x + w, y) \cup SegUnits(x, y + h, x + w, y + h)
    \cup SegUnits(x, y, x, y + h) \cup SegUnits(x + w, y, x + w, y + h)
ElemUnits(e) == IF ~ElemExact(e) THEN { <<"inexact", e.n>> }
                ELSE IF IsLine(e) THEN LineUnits(e)
                ELSE IF IsRect(e) THEN RectUnits(e)
                ELSE {}
DocUnits(doc) == UNION { ElemUnits(doc.elems[i]) : i \in Idx(doc) }

\* bag of a sequence
BagOfSeq(s) == [x \in RangeOf(s) |-> Cardinality({i \in 1..Len(s) : s[i] = x})]
=============================================================================
