---------------------------- MODULE MC_Rel ----------------------------
(* Relational properties on the model: the pipeline model is run on every small grid and    *)
(* the relation between the model's outputs for related inputs is an invariant.             *)
(*   C06  Output(shift(g, k, n)) = shift(Output(g), k, n)   for k, n in 0..2                *)
(*   C10  Output(a | b) = Output(a) (+) shift(Output(b))    for all pairs of small grids     *)
(*   C17  the row splitter gives the same rows for LF / CRLF / trailing blanks              *)
EXTENDS BridgeP, Relations
CONSTANTS W, H, Alphabet

Grids == [1..H -> [1..W -> Alphabet]]
MCInit == InitWith(Grids)
MCInitPair == InitWith(Grids)
MCNext == Next

ElemsOfOut(o) == ModelDoc(o).elems
ShiftRows(g, kk, n) == [i \in 1..n |-> <<>>] \o [i \in 1..Len(g) |-> Spaces(kk) \o g[i]]
ShiftCommutes ==
  Done => \A kk \in 0..2, n \in 0..2 :
     /\ ShiftedInput(rows, ShiftRows(rows, kk, n), kk, n)
     /\ SameBag(MoveAll(ElemsOfOut(out), 8000 * kk, 16000 * n), ElemsOfOut(Output(ShiftRows(rows, kk, n))))

SideRows(a, b, at) == [i \in 1..Max2(Len(a), Len(b)) |-> Pad(RStrip(RowOr(a, i)), at) \o RowOr(b, i)]
StackRows(a, b, gap) == a \o [i \in 1..gap |-> <<>>] \o b
JuxtaCommutes ==
  Done => \A b \in Grids :
     /\ \A gap \in 1..2 :
          LET at == WidthOf(rows) + gap j == SideRows(rows, b, at) IN
          /\ SideBySide(rows, b, j, at)
          /\ SameBag(ElemsOfOut(out) \o MoveAll(ElemsOfOut(Output(b)), 8000 * at, 0), ElemsOfOut(Output(j)))
     /\ LET j == StackRows(rows, b, 1) IN
          /\ Stacked(rows, b, j, 1)
          /\ SameBag(ElemsOfOut(out) \o MoveAll(ElemsOfOut(Output(b)), 0, 16000 * (Len(rows) + 1)), ElemsOfOut(Output(j)))

------------------------------------------------------------------------
(* stage 2: the row splitter (str::lines): rows end at LF, one CR before the LF is dropped;  *)
(* a final line without terminator counts; trailing blanks never become cells               *)
LF == 10  CR == 13
Flat(g, eol, trail) == FoldLeft(LAMBDA fl, row : fl \o row \o trail \o eol, <<>>, g)
Lines(text) ==
  LET step(st, c) == IF c = LF THEN [done |-> Append(st.done, StripCR(st.cur)), cur |-> <<>>]
                               ELSE [st EXCEPT !.cur = Append(st.cur, c)]
      st == FoldLeft(step, [done |-> <<>>, cur |-> <<>>], text)
  IN IF st.cur = <<>> THEN st.done ELSE Append(st.done, st.cur)
EolInvariant ==
  Done => \A eol \in { <<LF>>, <<CR, LF>> } : \A trail \in { <<>>, <<32>>, <<9, 32>> } :
     LET rs == Lines(Flat(rows, eol, trail)) IN
     /\ EolVariant(rows, rs)
     /\ CellSeq(rs) = cells
=============================================================================
