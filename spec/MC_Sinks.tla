---------------------------- MODULE MC_Sinks ----------------------------
(* Stage 17 (Serialize) sinks on the model: character data written through the escaping      *)
(* function (text.rs replace_html_char / escape_html_text, used for cell text, quoted text    *)
(* and, since the fix, legend declarations).  For every string of at most L characters over    *)
(* one representative per character class: the escaped form contains no markup-significant     *)
(* character outside an entity reference and only XML characters, and decoding the entity      *)
(* references gives back the string minus what XML cannot represent.                          *)
EXTENDS Reference, TLC
CONSTANTS L, Alphabet
VARIABLES str, done
Init == (\E n \in 0..L : str \in [1..n -> Alphabet]) /\ done = FALSE
Next == ~done /\ done' = TRUE /\ UNCHANGED str

Cps(s) == s
AMP == 38  LT == 60  GT == 62  APOS == 39  SEMI == 59
EscapeChar(c) ==
  IF c = GT THEN <<AMP, 103, 116, SEMI>>                 \* &gt;
  ELSE IF c = LT THEN <<AMP, 108, 116, SEMI>>            \* &lt;
  ELSE IF c = AMP THEN <<AMP, 97, 109, 112, SEMI>>       \* &amp;
  ELSE IF c = APOS THEN <<AMP, 35, 51, 57, SEMI>>        \* &#39;
  ELSE IF c = QUOTE THEN <<AMP, 113, 117, 111, 116, SEMI>> \* &quot;
  ELSE IF c = NUL \/ ~XmlChar(c) THEN <<>>
  ELSE <<c>>
Escape(s) == FoldLeft(LAMBDA acc, c : acc \o EscapeChar(c), <<>>, s)

\* what a conforming XML parser reads back from character data
Decode(t) ==
  LET RECURSIVE D(_)
      D(i) == IF i > Len(t) THEN <<>>
              ELSE IF t[i] # AMP THEN <<t[i]>> \o D(i + 1)
              ELSE IF SubSeq(t, i, i + 3) = <<AMP, 103, 116, SEMI>> THEN <<GT>> \o D(i + 4)
              ELSE IF SubSeq(t, i, i + 3) = <<AMP, 108, 116, SEMI>> THEN <<LT>> \o D(i + 4)
              ELSE IF SubSeq(t, i, i + 4) = <<AMP, 97, 109, 112, SEMI>> THEN <<AMP>> \o D(i + 5)
              ELSE IF SubSeq(t, i, i + 4) = <<AMP, 35, 51, 57, SEMI>> THEN <<APOS>> \o D(i + 5)
              ELSE IF SubSeq(t, i, i + 5) = <<AMP, 113, 117, 111, 116, SEMI>> THEN <<QUOTE>> \o D(i + 6)
              ELSE <<-1>>           \* a bare ampersand: not well-formed
  IN D(1)
NoRawMarkup == LET e == Escape(str) IN
  /\ \A i \in 1..Len(e) : e[i] # LT /\ XmlChar(e[i])
  /\ -1 \notin RangeOf(Decode(e))
RoundTrip == Decode(Escape(str)) = Shown(str)
=============================================================================
