---------------------------- MODULE MC_C03 ----------------------------
(* C03 on the model: every grid of W x H over Alphabet goes through the pipeline; at the end *)
(* the model's own document must satisfy the property-level predicate, and the behaviour is  *)
(* printed for replay into the real library.                                                *)
EXTENDS BridgeP, Json
CONSTANTS W, H, Alphabet
MCInit == InitWith([1..H -> [1..W -> Alphabet]])
ModelC03 == Done => C03_OK(ModelEvent)
Emit == Done => PrintT(<<"REPLAY", ToJson([rows |-> rows, out |-> out])>>)
=============================================================================
