---------------------------- MODULE BridgeP ----------------------------
(* Bridge for the transition system: the model's final state as an event of the trace format. *)
EXTENDS Pipeline, Bridge
ModelEvent == [rows |-> rows, doc |-> ModelDoc(out)]
=============================================================================
