---------------------------- MODULE MC_Arrow ----------------------------
(* C14 on the model: the arrow family (eight directions, lengths 1..MaxLen, the ASCII glyphs    *)
(* > < ^ v V) goes through the pipeline operators and the model's document must satisfy the       *)
(* ArrowOracle; every behaviour is printed for replay.                                           *)
EXTENDS Bridge, TLC, Json
CONSTANTS MaxLen, MaxK
VARIABLES a, done
Family == { [dir |-> d, len |-> n, k |-> kk, n |-> nn, g |-> g, body |-> b] :
              d \in {"r", "l", "u", "d", "dr", "dl", "ul", "ur"}, n \in 1..MaxLen, kk \in 0..MaxK, nn \in 0..1, g \in {62, 60, 94, 118, 86}, b \in {45, 124, 47, 92} }
Valid(x) == CASE x.dir = "r" -> x.g = 62 /\ x.body = 45 [] x.dir = "l" -> x.g = 60 /\ x.body = 45
              [] x.dir = "u" -> x.g = 94 /\ x.body = 124 [] x.dir = "d" -> x.g \in {118, 86} /\ x.body = 124
              [] x.dir = "dr" -> x.g \in {118, 86} /\ x.body = 92 [] x.dir = "dl" -> x.g \in {118, 86} /\ x.body = 47
              [] x.dir = "ul" -> x.g = 94 /\ x.body = 92 [] OTHER -> x.g = 94 /\ x.body = 47
Init == a \in { x \in Family : Valid(x) } /\ done = FALSE
Next == ~done /\ done' = TRUE /\ UNCHANGED a
Rows == ArrowRows(a)
Out == Output(CellRows(Rows))
ModelC14 == C14arrow_OK([rows |-> Rows, doc |-> ModelDoc(Out), arrow |-> a])
Emit == done => PrintT(<<"REPLAY", ToJson([rows |-> Rows, out |-> Out, arrow |-> a])>>)
=============================================================================
