INIT Init
NEXT Next
INVARIANT Report
POSTCONDITION Accepted
CHECK_DEADLOCK FALSE
