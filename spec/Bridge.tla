---------------------------- MODULE Bridge ----------------------------
(* The model's final elements, presented in the same shape as a document recorded from the  *)
(* real code, so that every property predicate of Reference.tla / Relations.tla can be       *)
(* evaluated on the model's own result as an invariant.                                      *)
EXTENDS PipelineOps, Reference

M(x) == x * MILLI
ModelElem(t) ==
  IF t[1] = "line" THEN [k |-> "line", n |-> <<M(t[2]), M(t[3]), M(t[4]), M(t[5])>>, role |-> <<0,1,0,1>>, fl |-> <<>>,
                         cls |-> (IF t[6] = 1 THEN <<"broken">> ELSE <<"solid">>) \o (IF t[7] = "" THEN <<>> ELSE <<t[7]>>), s |-> <<>>, g |-> 0]
  ELSE IF t[1] = "rect" THEN [k |-> "rect", n |-> <<M(t[2]), M(t[3]), M(t[4]), M(t[5]), M(t[6])>>, role |-> <<0,1,2,2,2>>, fl |-> <<>>,
                         cls |-> (IF t[7] = 1 THEN <<"broken">> ELSE <<"solid">>) \o (IF t[8] = 1 THEN <<"filled">> ELSE <<"nofill">>), s |-> <<>>, g |-> 0]
  ELSE IF t[1] = "path" THEN [k |-> "path", n |-> <<M(t[2]), M(t[3]), M(t[4]), M(t[4]), M(t[6]), M(t[7])>>, role |-> <<0,1,2,2,0,1>>,
                         fl |-> <<0, t[8], t[5]>>, cls |-> <<"nofill">>, s |-> <<>>, g |-> 0]
  ELSE IF t[1] = "polygon" THEN [k |-> "polygon", n |-> [i \in 1..(Len(t) - 2) |-> M(t[i + 1])],
                         role |-> [i \in 1..(Len(t) - 2) |-> (i + 1) % 2], fl |-> <<>>, cls |-> <<"filled">>, s |-> <<>>, g |-> 0]
  ELSE IF t[1] = "circle" THEN [k |-> "circle", n |-> <<M(t[2]), M(t[3]), M(t[4])>>, role |-> <<0,1,2>>, fl |-> <<>>,
                         cls |-> IF t[5] = 1 THEN <<"filled">> ELSE <<"nofill">>, s |-> <<>>, g |-> 0]
  ELSE [k |-> "text", n |-> <<M(t[2]), M(t[3])>>, role |-> <<0,1>>, fl |-> <<>>, cls |-> <<>>, s |-> t[4], g |-> 0]
ModelDoc(o) == [wf |-> 1, elems |-> [i \in 1..Len(o) |-> [ModelElem(o[i]) EXCEPT !.g = o[i][Len(o[i])]]]]
=============================================================================
