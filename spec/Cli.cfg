SPECIFICATION Spec
PROPERTY Terminates
INVARIANTS MachineMatchesReference ExitIffSuccess Emit
CHECK_DEADLOCK FALSE
