---------------------------- MODULE ServiceTrace ----------------------------
(* Trace specification for C07.  Events recorded from real processes:                         *)
(*   [ev |-> "ret", proc, thread, key, sha]  a call returned: key identifies <<input, settings, *)
(*        entry>>, sha is the SHA-256 of the returned bytes                                     *)
(*   [ev |-> "lazy", proc, thread, table, phase]  begin / end of a lazy table initialiser, in    *)
(*        the order given by the process-wide sequence number taken under the log's lock        *)
(* `canon` is inferred: the first observation of a key defines it, every later one - in any     *)
(* process, thread or order - must equal it (property-level: byte-identical output).  The lazy  *)
(* events must be a behaviour of Service.tla's tables: begin only from "uninit", end only by    *)
(* the thread that began, innermost first (mechanism-level: reported as drift, not as a         *)
(* violation of C07).                                                                          *)
EXTENDS Integers, Sequences, FiniteSets, TLC, Json, IOUtils
VARIABLES l, canon, bad, tst, stk, nt
vars == <<l, canon, bad, tst, stk, nt>>
Rec == ndJsonDeserialize(IOEnv.TRACE)
Dom(f) == DOMAIN f
Init == l = 1 /\ canon = <<>> /\ bad = {} /\ tst = <<>> /\ stk = <<>> /\ nt = 0
PT(ev) == <<ev.proc, ev.table>>
PTh(ev) == <<ev.proc, ev.thread>>
Get(f, k, d) == IF k \in DOMAIN f THEN f[k] ELSE d
Put(f, k, v) == [x \in (DOMAIN f) \cup {k} |-> IF x = k THEN v ELSE f[x]]
Ret(ev) ==
  /\ IF ev.key \in DOMAIN canon
     THEN /\ canon' = canon
          /\ bad' = IF canon[ev.key] = ev.sha THEN bad ELSE bad \cup {<<l, "C07">>}
          /\ nt' = nt + 1
     ELSE canon' = Put(canon, ev.key, ev.sha) /\ bad' = bad /\ nt' = nt
  /\ UNCHANGED <<tst, stk>>
Lazy(ev) ==
  LET st == Get(tst, PT(ev), "uninit") sk == Get(stk, PTh(ev), <<>>) IN
  /\ IF ev.phase = "begin"
     THEN /\ bad' = IF st = "uninit" THEN bad ELSE bad \cup {<<l, "once">>}
          /\ tst' = Put(tst, PT(ev), "running") /\ stk' = Put(stk, PTh(ev), Append(sk, ev.table))
     ELSE /\ bad' = IF st = "running" /\ sk # <<>> /\ sk[Len(sk)] = ev.table THEN bad ELSE bad \cup {<<l, "nest">>}
          /\ tst' = Put(tst, PT(ev), "ready")
          /\ stk' = Put(stk, PTh(ev), IF sk = <<>> THEN sk ELSE SubSeq(sk, 1, Len(sk) - 1))
  /\ UNCHANGED <<canon, nt>>
Next == /\ l <= Len(Rec) /\ l' = l + 1
        /\ IF Rec[l].ev = "ret" THEN Ret(Rec[l]) ELSE Lazy(Rec[l])
Report == l = Len(Rec) + 1 => /\ \A b \in bad : PrintT(<<"BAD", b[1], b[2]>>)
                              /\ PrintT(<<"BADCOUNT", Cardinality(bad)>>)
                              /\ PrintT(<<"NONTRIVIAL", nt>>)
Accepted == TLCGet("stats").diameter = Len(Rec) + 1
=============================================================================
