---------------------------- MODULE BufferTrace ----------------------------
(* Trace specification for recorded histories of ONE buffer object (Buffer.tla).  Events:           *)
(*   [ev |-> "load", rows]              the object was built from this text                          *)
(*   [ev |-> "insert", x, y, ch]        a cell was written through the object's map                   *)
(*   [ev |-> "remove", x, y]            a cell was removed                                            *)
(*   [ev |-> "render", doc, fresh, props]  the object was rendered; `doc` is what it gave (in lattice  *)
(*        units whatever the scale), `fresh` = [rows, doc] is the conversion of a text through the     *)
(*        ordinary entry point with the same settings, which the driver claims is the object's state   *)
(* The specification keeps `grid` itself from the recorded writes (Buffer!SetCell).  The driver's     *)
(* claim is checked against it ("driver": a failure there is a defect of the harness, reported as a  *)
(* tool error, never as a violation).  On every render it evaluates the clauses named in `props`:     *)
(*   "fresh"   the render equals the render of a fresh object in the same state            (C07)      *)
(*   "scale"   it equals the previous render of the same state, taken at another scale      (C11)      *)
(*   "canvas"  its page is the page of the state as it is now                              (C12)      *)
EXTENDS Relations, TLC, Json, IOUtils
VARIABLES l, grid, prev, bad, nt
vars == <<l, grid, prev, bad, nt>>
B == INSTANCE Buffer WITH W <- 1, H <- 1, Chars <- {}, grid <- grid, renders <- 0
Rec == ndJsonDeserialize(IOEnv.TRACE)
NoDoc == [wf |-> -1]
Init == l = 1 /\ grid = <<>> /\ prev = NoDoc /\ bad = {} /\ nt = 0

SameRender(da, db) ==
  /\ da.wf = 1 /\ db.wf = 1
  /\ SameBag(da.elems, db.elems)
  /\ Near(da.w, db.w) /\ Near(da.h, db.h)
ClauseHolds(ev, p) ==
  CASE p = "driver" -> CanonRows(ev.fresh.rows) = CanonRows(grid)
    [] p = "fresh" -> SameRender(ev.doc, ev.fresh.doc)
    [] p = "scale" -> prev = NoDoc \/ ScaledDoc(prev, ev.doc)
    [] p = "canvas" -> C12_OK([rows |-> grid, doc |-> ev.doc])
    [] OTHER -> FALSE
ClauseNT(ev, p) == IF p = "scale" THEN prev # NoDoc ELSE p # "driver" /\ ev.doc.wf = 1 /\ Len(ev.doc.elems) > 0

Step(ev) ==
  CASE ev.ev = "load" -> grid' = ev.rows /\ prev' = NoDoc /\ UNCHANGED <<bad, nt>>
    [] ev.ev = "insert" -> grid' = B!SetCell(grid, ev.x, ev.y, ev.ch) /\ prev' = NoDoc /\ UNCHANGED <<bad, nt>>
    [] ev.ev = "remove" -> grid' = B!SetCell(grid, ev.x, ev.y, 32) /\ prev' = NoDoc /\ UNCHANGED <<bad, nt>>
    [] ev.ev = "render" ->
         LET ps == RangeOf(ev.props) \cup {"driver"} IN
         /\ UNCHANGED grid                         \* rendering is an observation (Buffer!Render)
         /\ prev' = ev.doc
         /\ bad' = bad \cup { <<l, p>> : p \in { q \in ps : ~ClauseHolds(ev, q) } }
         /\ nt' = nt + Cardinality({ q \in ps : ClauseNT(ev, q) })
Next == l <= Len(Rec) /\ l' = l + 1 /\ Step(Rec[l])
Report == l = Len(Rec) + 1 => /\ \A b \in bad : PrintT(<<"BAD", b[1], b[2]>>)
                              /\ PrintT(<<"BADCOUNT", Cardinality(bad)>>)
                              /\ PrintT(<<"NONTRIVIAL", nt>>)
Accepted == TLCGet("stats").diameter = Len(Rec) + 1
=============================================================================
