---------------------------- MODULE Chars ----------------------------
(* Character classes over code points.                                                      *)
EXTENDS Integers, Sequences, FiniteSets

\* Rust char::is_whitespace restricted to what can occur inside a line
IsWs(c) == c \in {9, 11, 12, 13, 32, 133, 160, 5760, 8232, 8233, 8239, 8287, 12288} \/ (c >= 8192 /\ c <= 8202)

\* East Asian Wide / Fullwidth blocks (display width 2); the drivers only draw wide characters from
\* blocks on which every Unicode version agrees
WideCp(c) == \/ (c >= 4352 /\ c <= 4447) \/ (c >= 11904 /\ c <= 12350) \/ (c >= 12353 /\ c <= 13311)
             \/ (c >= 13312 /\ c <= 19903) \/ (c >= 19968 /\ c <= 42191) \/ (c >= 44032 /\ c <= 55203)
             \/ (c >= 63744 /\ c <= 64255) \/ (c >= 65072 /\ c <= 65135) \/ (c >= 65281 /\ c <= 65376)
             \/ (c >= 65504 /\ c <= 65510) \/ (c >= 131072 /\ c <= 262141)

\* XML 1.0 Char production
XmlChar(c) == c \in {9, 10, 13} \/ (c >= 32 /\ c <= 55295) \/ (c >= 57344 /\ c <= 65533) \/ (c >= 65536 /\ c <= 1114111)

\* characters with a drawing meaning: the ASCII property table and the Unicode glyph table
AsciiDrawing == {33, 35, 39, 40, 41, 42, 43, 44, 45, 46, 47, 58, 60, 61, 62, 79, 86, 88, 92, 94, 95, 96, 111, 118, 124, 126, 8217}
UnicodeDrawing == {175, 8211, 8212, 8254, 8736, 8800, 8853, 8896, 8970, 9472, 9474, 9476, 9478, 9482, 9484, 9488, 9492,
  9496, 9500, 9508, 9516, 9524, 9532, 9550, 9552, 9553, 9554, 9555, 9556, 9557, 9558, 9559, 9560, 9561, 9562, 9563,
  9564, 9565, 9566, 9567, 9568, 9569, 9570, 9571, 9572, 9573, 9574, 9575, 9576, 9577, 9578, 9579, 9580, 9581, 9582,
  9583, 9584, 9585, 9586, 9587, 9601, 9602, 9603, 9604, 9605, 9606, 9607, 9608, 9615, 9621, 9633, 9642, 9650, 9651,
  9652, 9654, 9656, 9658, 9660, 9662, 9664, 9666, 9668, 9670, 9675, 9679, 9692, 9693, 9694, 9695, 10553, 10677, 65518}
Drawing(c) == c \in AsciiDrawing \/ c \in UnicodeDrawing

\* identifier class of the legend / tag grammar: [A-Za-z_][A-Za-z0-9_]*
Alpha(c) == (c >= 65 /\ c <= 90) \/ (c >= 97 /\ c <= 122)
Digit(c) == c >= 48 /\ c <= 57
IdentStart(c) == Alpha(c) \/ c = 95
IdentRest(c) == Alpha(c) \/ Digit(c) \/ c = 95
IsIdent(s) == Len(s) > 0 /\ IdentStart(s[1]) /\ \A i \in 2..Len(s) : IdentRest(s[i])
=============================================================================
