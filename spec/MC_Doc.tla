---------------------------- MODULE MC_Doc ----------------------------
(* Document-level properties as invariants of the pipeline model over all small grids.      *)
EXTENDS BridgeP, Json
CONSTANTS W, H, Alphabet
MCInit == InitWith([1..H -> [1..W -> Alphabet]])
ModelC12 == Done => C12_With(rows, [ModelDoc(out) EXCEPT !.wf = 1] @@ [w |-> RefCanvasW(rows), h |-> RefCanvasH(rows)])
ModelC05 == Done => C05s_OK(ModelEvent)
ModelC09 == Done => C09_OK(ModelEvent)
Emit == Done => PrintT(<<"REPLAY", ToJson([rows |-> rows, out |-> out])>>)
=============================================================================
