---------------------------- MODULE MC_Text ----------------------------
(* C04 on the model: every row of at most L characters over Alphabet (single-byte, two-byte  *)
(* and double-width labels, blanks, drawing characters) above a row of dashes that puts the   *)
(* whole input in one span; the text-merge rule works in display columns.                    *)
EXTENDS BridgeP, Json
CONSTANTS L, Alphabet
RawRowsSet == UNION { [1..n -> Alphabet] : n \in 1..L }
Dashes(n) == [i \in 1..n |-> 45]
Inputs == { << CellRow(r), Dashes(Len(CellRow(r))) >> : r \in RawRowsSet }
MCInit == InitWith(Inputs)
Raw(rws) == [i \in 1..Len(rws) |-> SelectSeq(rws[i], LAMBDA c : c # 0)]
ModelC04 == Done => C04_OK([rows |-> Raw(rows), doc |-> ModelDoc(out)])
Emit == Done => PrintT(<<"REPLAY", ToJson([rows |-> Raw(rows), out |-> out])>>)
=============================================================================
