---------------------------- MODULE Reference ----------------------------
(* Property-level semantics: what the output must be, stated independently of how svgbob    *)
(* computes it.  Every operator takes the recorded input (rows of code points, 1-based) and  *)
(* the abstract document recorded from the real code.                                       *)
EXTENDS Elems

SP == 32  DASH == 45  BAR == 124  PLUS == 43  QUOTE == 34  NUL == 0

At(rows, r, c) == IF r \in 1..Len(rows) /\ c \in 1..Len(rows[r]) THEN rows[r][c] ELSE SP
NRows(rows) == Len(rows)
Cells(rows) == { <<r, c>> \in UNION { {r} \X (1..Len(rows[r])) : r \in 1..Len(rows) } : TRUE }

---------------------------------------------------------------------------
(* C03 — grids over {space, -, |, +} and plain labels                                        *)
HSeg(r, c, half) == IF half = 0 THEN HUnit((c - 1) * CW, (r - 1) * CH + 8)
                                ELSE HUnit((c - 1) * CW + 4, (r - 1) * CH + 8)
VSeg(r, c, half) == IF half = 0 THEN VUnit((c - 1) * CW + 4, (r - 1) * CH)
                                ELSE VUnit((c - 1) * CW + 4, (r - 1) * CH + 8)
PlusStrokes(rows, r, c) ==
     (IF At(rows, r - 1, c) \in {BAR, PLUS} THEN {VSeg(r, c, 0)} ELSE {})
  \cup (IF At(rows, r + 1, c) \in {BAR, PLUS} THEN {VSeg(r, c, 1)} ELSE {})
  \cup (IF At(rows, r, c - 1) \in {DASH, PLUS} THEN {HSeg(r, c, 0)} ELSE {})
  \cup (IF At(rows, r, c + 1) \in {DASH, PLUS} THEN {HSeg(r, c, 1)} ELSE {})
CellStrokes(rows, r, c) ==
  LET ch == At(rows, r, c) IN
  IF ch = DASH THEN {HSeg(r, c, 0), HSeg(r, c, 1)}
  ELSE IF ch = BAR THEN {VSeg(r, c, 0), VSeg(r, c, 1)}
        \cup (IF At(rows, r, c + 1) = DASH THEN {HSeg(r, c, 1)} ELSE {})
        \cup (IF At(rows, r, c - 1) = DASH THEN {HSeg(r, c, 0)} ELSE {})
  ELSE IF ch = PLUS THEN PlusStrokes(rows, r, c)
  ELSE {}
RefStrokes(rows) == UNION { CellStrokes(rows, rc[1], rc[2]) : rc \in Cells(rows) }

\* cells that must be shown as text: labels, and a '+' nothing points at
C03TextCells(rows) ==
  { rc \in Cells(rows) :
      LET ch == At(rows, rc[1], rc[2]) IN
      /\ ch # SP
      /\ ch \notin {DASH, BAR}
      /\ (ch = PLUS => PlusStrokes(rows, rc[1], rc[2]) = {}) }

\* text element i covers these cells (ASCII: one column per character)
TextAnchorOK(e) == /\ OnLattice(e.n[1]) /\ OnLattice(e.n[2])
                   /\ (U(e.n[1]) - 2) % CW = 0 /\ (U(e.n[2]) - 12) % CH = 0
                   /\ U(e.n[1]) >= 2 /\ U(e.n[2]) >= 12
TextRow(e) == (U(e.n[2]) - 12) \div CH + 1
TextCol(e) == (U(e.n[1]) - 2) \div CW + 1
TextCellsAscii(e) == { <<TextRow(e), TextCol(e) + i - 1>> : i \in 1..Len(e.s) }
TextMatchesAscii(rows, e) == \A i \in 1..Len(e.s) : At(rows, TextRow(e), TextCol(e) + i - 1) = e.s[i]

\* every text element shows input characters where they are, and the expected cells are each
\* covered by exactly one text element
TextsExactAscii(rows, doc, expected) ==
  LET T == OfKind(doc, "text") IN
  /\ \A i \in T : TextAnchorOK(doc.elems[i]) /\ Len(doc.elems[i].s) > 0 /\ TextMatchesAscii(rows, doc.elems[i])
  /\ \A i, j \in T : i # j => TextCellsAscii(doc.elems[i]) \cap TextCellsAscii(doc.elems[j]) = {}
  /\ UNION { TextCellsAscii(doc.elems[i]) : i \in T } = expected

C03_OK(ev) ==
  /\ ev.doc.wf = 1
  /\ \A i \in Idx(ev.doc) : ev.doc.elems[i].k \in {"line", "rect", "text"}
  /\ DocUnits(ev.doc) = RefStrokes(ev.rows)
  /\ TextsExactAscii(ev.rows, ev.doc, C03TextCells(ev.rows))
C03_NT(ev) == RefStrokes(ev.rows) # {}
=============================================================================
