---------------------------- MODULE Reference ----------------------------
(* Property-level semantics: what the output must be, stated independently of how svgbob    *)
(* computes it.  Every operator takes the recorded input (rows of code points, 1-based) and  *)
(* the abstract document recorded from the real code.                                       *)
EXTENDS Elems, Catalogue

SP == 32  DASH == 45  BAR == 124  PLUS == 43  QUOTE == 34  NUL == 0

At(rows, r, c) == IF r \in 1..Len(rows) /\ c \in 1..Len(rows[r]) THEN rows[r][c] ELSE SP
NRows(rows) == Len(rows)
Cells(rows) == { <<r, c>> \in UNION { {r} \X (1..Len(rows[r])) : r \in 1..Len(rows) } : TRUE }

---------------------------------------------------------------------------
(* C03 — grids over {space, -, |, +} and plain labels                                        *)
HSeg(r, c, half) == IF half = 0 THEN HUnit((c - 1) * CW, (r - 1) * CH + 8)
                                ELSE HUnit((c - 1) * CW + 4, (r - 1) * CH + 8)
VSeg(r, c, half) == IF half = 0 THEN VUnit((c - 1) * CW + 4, (r - 1) * CH)
                                ELSE VUnit((c - 1) * CW + 4, (r - 1) * CH + 8)
PlusStrokes(rows, r, c) ==
     (IF At(rows, r - 1, c) \in {BAR, PLUS} THEN {VSeg(r, c, 0)} ELSE {})
  \cup (IF At(rows, r + 1, c) \in {BAR, PLUS} THEN {VSeg(r, c, 1)} ELSE {})
  \cup (IF At(rows, r, c - 1) \in {DASH, PLUS} THEN {HSeg(r, c, 0)} ELSE {})
  \cup (IF At(rows, r, c + 1) \in {DASH, PLUS} THEN {HSeg(r, c, 1)} ELSE {})
CellStrokes(rows, r, c) ==
  LET ch == At(rows, r, c) IN
  IF ch = DASH THEN {HSeg(r, c, 0), HSeg(r, c, 1)}
  ELSE IF ch = BAR THEN {VSeg(r, c, 0), VSeg(r, c, 1)}
        \cup (IF At(rows, r, c + 1) = DASH THEN {HSeg(r, c, 1)} ELSE {})
        \cup (IF At(rows, r, c - 1) = DASH THEN {HSeg(r, c, 0)} ELSE {})
  ELSE IF ch = PLUS THEN PlusStrokes(rows, r, c)
  ELSE {}
RefStrokes(rows) == UNION { CellStrokes(rows, rc[1], rc[2]) : rc \in Cells(rows) }

\* cells that must be shown as text: labels, and a '+' nothing points at
C03TextCells(rows) ==
  { rc \in Cells(rows) :
      LET ch == At(rows, rc[1], rc[2]) IN
      /\ ch # SP
      /\ ch \notin {DASH, BAR}
      /\ (ch = PLUS => PlusStrokes(rows, rc[1], rc[2]) = {}) }

\* text element i covers these cells (ASCII: one column per character)
TextAnchorOK(e) == /\ OnLattice(e.n[1]) /\ OnLattice(e.n[2])
                   /\ (U(e.n[1]) - 2) % CW = 0 /\ (U(e.n[2]) - 12) % CH = 0
                   /\ U(e.n[1]) >= 2 /\ U(e.n[2]) >= 12
TextRow(e) == (U(e.n[2]) - 12) \div CH + 1
TextCol(e) == (U(e.n[1]) - 2) \div CW + 1
TextCellsAscii(e) == { <<TextRow(e), TextCol(e) + i - 1>> : i \in 1..Len(e.s) }
TextMatchesAscii(rows, e) == \A i \in 1..Len(e.s) : At(rows, TextRow(e), TextCol(e) + i - 1) = e.s[i]

\* every text element shows input characters where they are, and the expected cells are each
\* covered by exactly one text element
TextsExactAscii(rows, doc, expected) ==
  LET T == OfKind(doc, "text") IN
  /\ \A i \in T : TextAnchorOK(doc.elems[i]) /\ Len(doc.elems[i].s) > 0 /\ TextMatchesAscii(rows, doc.elems[i])
  /\ \A i, j \in T : i # j => TextCellsAscii(doc.elems[i]) \cap TextCellsAscii(doc.elems[j]) = {}
  /\ UNION { TextCellsAscii(doc.elems[i]) : i \in T } = expected

C03_OK(ev) ==
  /\ ev.doc.wf = 1
  /\ \A i \in Idx(ev.doc) : ev.doc.elems[i].k \in {"line", "rect", "text"}
  /\ DocUnits(ev.doc) = RefStrokes(ev.rows)
  /\ TextsExactAscii(ev.rows, ev.doc, C03TextCells(ev.rows))
C03_NT(ev) == RefStrokes(ev.rows) # {}

---------------------------------------------------------------------------
(* cell rows: the input row with every wide character followed by a filler (code 0), so     *)
(* that the index in the row is the display column                                          *)
CellRow(row) == FoldLeft(LAMBDA a, c : IF WideCp(c) THEN a \o <<c, NUL>> ELSE Append(a, c), <<>>, row)
CellRows(rows) == [r \in 1..Len(rows) |-> CellRow(rows[r])]
StripCRRow(row) == IF Len(row) > 0 /\ row[Len(row)] = 13 THEN SubSeq(row, 1, Len(row) - 1) ELSE row

\* the drawing part: rows before the first row that starts with "# Legend:" (after blanks)
LegendHeader == <<35, 32, 76, 101, 103, 101, 110, 100, 58>>
LStrip(row) == LET idx == { i \in 1..Len(row) : row[i] \notin {32, 9} } IN
               IF idx = {} THEN <<>> ELSE SubSeq(row, SetMin(idx), Len(row))
IsLegendRow(row) == LET s == LStrip(row) IN Len(s) >= 9 /\ SubSeq(s, 1, 9) = LegendHeader
LegendAt(rows) == LET idx == { r \in 1..Len(rows) : IsLegendRow(rows[r]) } IN IF idx = {} THEN 0 ELSE SetMin(idx)
DrawingRows(rows) == IF LegendAt(rows) = 0 THEN rows ELSE SubSeq(rows, 1, LegendAt(rows) - 1)

---------------------------------------------------------------------------
(* quoted segments of a cell row: pairs <<open, close>> of quote positions, scanned left to  *)
(* right; inside a segment backslash-quote does not close it; an unpaired quote is ordinary  *)
QuoteSegs(cr) ==
  LET step(st, p) ==
        IF st.skip THEN [st EXCEPT !.skip = FALSE]
        ELSE IF st.open = 0 THEN (IF cr[p] = QUOTE THEN [st EXCEPT !.open = p] ELSE st)
        ELSE IF cr[p] = 92 /\ p < Len(cr) /\ cr[p + 1] = QUOTE THEN [st EXCEPT !.skip = TRUE]
        ELSE IF cr[p] = QUOTE THEN [st EXCEPT !.open = 0, !.segs = Append(st.segs, <<st.open, p>>)]
        ELSE st
  IN FoldLeft(step, [open |-> 0, skip |-> FALSE, segs |-> <<>>], [p \in 1..Len(cr) |-> p]).segs
InSeg(segs, p) == \E i \in 1..Len(segs) : segs[i][1] <= p /\ p <= segs[i][2]
\* the row with every quoted region, quotes included, replaced by spaces
BlankQuoted(cr) == LET segs == QuoteSegs(cr) IN [p \in 1..Len(cr) |-> IF InSeg(segs, p) THEN SP ELSE cr[p]]
\* what is shown of a quoted content: fillers and characters XML cannot represent are dropped
Shown(s) == SelectSeq(s, LAMBDA c : c # NUL /\ XmlChar(c))
\* expected text elements of the quoted segments of row r (1-based): <<x, y, content>> in lattice units
QuotedTexts(cr, r) == LET segs == QuoteSegs(cr) IN
  [i \in 1..Len(segs) |-> <<(segs[i][1] - 1) * CW + 2, (r - 1) * CH + 12, Shown(SubSeq(cr, segs[i][1] + 1, segs[i][2] - 1))>>]

---------------------------------------------------------------------------
(* C12 — canvas and containment                                                             *)
Occupied(cr) == { p \in 1..Len(cr) : ~IsWs(cr[p]) /\ cr[p] # SP }      \* fillers count: they are the 2nd column of a wide char
LastCol(crs) == LET S == UNION { Occupied(crs[r]) : r \in 1..Len(crs) } IN IF S = {} THEN 1 ELSE SetMax(S)
LastRow(crs) == LET S == { r \in 1..Len(crs) : Occupied(crs[r]) # {} } IN IF S = {} THEN 1 ELSE SetMax(S)
RefCanvasW(crs) == (LastCol(crs) + 1) * CW * MILLI       \* 1-based column c is 0-based c-1: (c - 1 + 2) cells
RefCanvasH(crs) == (LastRow(crs) + 1) * CH * MILLI
CpCells(c) == IF WideCp(c) THEN 2 ELSE 1
TextCellsLen(s) == FoldLeft(LAMBDA a, c : a + CpCells(c), 0, s)
InCanvas(doc, x, y) == x >= 0 /\ x <= doc.w /\ y >= 0 /\ y <= doc.h
ElemContained(doc, e) ==
  IF IsText(e) THEN /\ InCanvas(doc, e.n[1], e.n[2])
                    /\ e.n[1] - 2 * MILLI + TextCellsLen(e.s) * CW * MILLI <= doc.w
  ELSE IF IsRect(e) THEN InCanvas(doc, e.n[1], e.n[2]) /\ InCanvas(doc, e.n[1] + e.n[3], e.n[2] + e.n[4])
  ELSE IF IsCircle(e) THEN InCanvas(doc, e.n[1] - e.n[3], e.n[2] - e.n[3]) /\ InCanvas(doc, e.n[1] + e.n[3], e.n[2] + e.n[3])
  ELSE IF IsPath(e) THEN InCanvas(doc, e.n[1], e.n[2]) /\ InCanvas(doc, e.n[5], e.n[6])
  ELSE \A i \in 1..(Len(e.n) \div 2) : InCanvas(doc, e.n[2 * i - 1], e.n[2 * i])
Contained(doc) == \A i \in Idx(doc) : ElemContained(doc, doc.elems[i])
C12_With(crs, doc) ==
  /\ doc.wf = 1
  /\ Abs(doc.w - RefCanvasW(crs)) <= 8 /\ Abs(doc.h - RefCanvasH(crs)) <= 8
  /\ Contained(doc)
DrawCells(ev) == CellRows([r \in 1..Len(DrawingRows(ev.rows)) |-> StripCRRow(DrawingRows(ev.rows)[r])])
C12_OK(ev) == C12_With(DrawCells(ev), ev.doc)
\* the same, as if every quoted region were blank and quoted texts were not drawn: this is what the
\* code computes today (known finding: the canvas does not see quoted text)
IsQuotedText(crs, e) == IsText(e) /\ \E r \in 1..Len(crs) : \E i \in 1..Len(QuotedTexts(crs[r], r)) :
     LET q == QuotedTexts(crs[r], r)[i] IN e.n[1] = q[1] * MILLI /\ e.n[2] = q[2] * MILLI /\ e.s = q[3]
C12_ExQuoted(ev) ==
  LET crs == DrawCells(ev)
      blanked == [r \in 1..Len(crs) |-> BlankQuoted(crs[r])]
      doc2 == [ev.doc EXCEPT !.elems = SelectSeq(ev.doc.elems, LAMBDA e : ~IsQuotedText(crs, e))]
  IN ev.doc.wf = 1 /\ C12_With(blanked, doc2)
C12_NT(ev) == ev.doc.wf = 1 /\ Len(ev.doc.elems) > 0

---------------------------------------------------------------------------
(* C09 — no two plain lines collinear and touching, no plain line twice                      *)
\* coordinates in 1/8 lattice unit so that cross products stay within 32 bits
E8(m) == m \div 125
LP1(e) == <<E8(e.n[1]), E8(e.n[2])>>
LP2(e) == <<E8(e.n[3]), E8(e.n[4])>>
LinesTouchCollinear(a, b) ==
  /\ Collinear(LP1(a), LP2(a), LP1(b)) /\ Collinear(LP1(a), LP2(a), LP2(b))
  /\ (InBox(LP1(b), LP1(a), LP2(a)) \/ InBox(LP2(b), LP1(a), LP2(a)) \/ InBox(LP1(a), LP1(b), LP2(b)) \/ InBox(LP2(a), LP1(b), LP2(b)))
NoCollinearTouching(doc) ==
  LET P == { i \in Idx(doc) : IsPlainLine(doc.elems[i]) /\ LP1(doc.elems[i]) # LP2(doc.elems[i]) } IN
  \A i, j \in P : i < j => ~LinesTouchCollinear(doc.elems[i], doc.elems[j])
C09_OK(ev) == ev.doc.wf = 1 /\ NoCollinearTouching(ev.doc)
C09_NT(ev) == ev.doc.wf = 1 /\ Cardinality({ i \in Idx(ev.doc) : IsPlainLine(ev.doc.elems[i]) }) >= 2

\* (i) the run family.  ev.run = [chars (the characters of the run, in order), len, dir ("h", "v", "s" = '/', "b" = '\'), k, n]
RunRows(run) ==
  [i \in 1..run.n |-> <<>>] \o
  (IF run.dir = "h" THEN << [j \in 1..run.k |-> SP] \o run.chars >>
   ELSE [i \in 1..run.len |->
           [j \in 1..(run.k + (IF run.dir = "v" THEN 0 ELSE IF run.dir = "s" THEN run.len - i ELSE i - 1)) |-> SP] \o <<run.chars[i]>>])
DoubleCh == {61, 9552, 9553}                             \* = and the double box-drawing lines
BrokenCh == {126, 9476, 58, 33, 9550, 9482, 9478}        \* ~ and the dashed box-drawing lines, : !
RunLineOK(e, run) ==
  LET x0 == run.k * CW * MILLI  y0 == run.n * CH * MILLI
      x1 == (run.k + (IF run.dir = "v" THEN 1 ELSE run.len)) * CW * MILLI
      y1 == (run.n + (IF run.dir = "h" THEN 1 ELSE run.len)) * CH * MILLI IN
  /\ IsPlainLine(e)
  /\ LET dashed == \E i \in 1..Len(run.chars) : run.chars[i] \in BrokenCh IN      \* dashed if any part of it is dashed
     (IsBroken(e) <=> dashed) /\ (IsSolid(e) <=> ~dashed)
  /\ CASE run.dir = "h" -> {e.n[1], e.n[3]} = {x0, x1} /\ e.n[2] = e.n[4] /\ e.n[2] >= y0 /\ e.n[2] <= y1
       [] run.dir = "v" -> {e.n[2], e.n[4]} = {y0, y1} /\ e.n[1] = e.n[3] /\ e.n[1] >= x0 /\ e.n[1] <= x1
       [] run.dir = "s" -> { <<e.n[1], e.n[2]>>, <<e.n[3], e.n[4]>> } = { <<x1, y0>>, <<x0, y1>> }
       [] OTHER         -> { <<e.n[1], e.n[2]>>, <<e.n[3], e.n[4]>> } = { <<x0, y0>>, <<x1, y1>> }
C09run_OK(ev) ==
  /\ ev.doc.wf = 1
  /\ ev.rows = RunRows(ev.run) /\ Len(ev.run.chars) = ev.run.len
  /\ Len(ev.doc.elems) = (IF ev.run.chars[1] \in DoubleCh THEN 2 ELSE 1)
  /\ \A i \in Idx(ev.doc) : RunLineOK(ev.doc.elems[i], ev.run)
  /\ (Len(ev.doc.elems) = 2 => ev.doc.elems[1].n # ev.doc.elems[2].n)

---------------------------------------------------------------------------
(* C04 — text elements show input characters where they are; non-drawing characters are      *)
(* covered exactly once (domain: no double quote, no braces, single- and double-width chars) *)
TextCols(e) == LET c0 == TextCol(e) IN       \* display column (1-based) of each character
  [i \in 1..Len(e.s) |-> c0 + TextCellsLen(SubSeq(e.s, 1, i - 1))]
TextMatches(crs, e) ==
  /\ TextAnchorOK(e) /\ Len(e.s) > 0
  /\ TextRow(e) \in 1..Len(crs)
  /\ \A i \in 1..Len(e.s) : LET c == TextCols(e)[i] IN
        c \in 1..Len(crs[TextRow(e)]) /\ crs[TextRow(e)][c] = e.s[i]
TextCovered(e) == { <<TextRow(e), TextCols(e)[i]>> : i \in 1..Len(e.s) }
NonDrawingCells(crs) == { rc \in UNION { {r} \X (1..Len(crs[r])) : r \in 1..Len(crs) } :
     LET c == crs[rc[1]][rc[2]] IN c # NUL /\ c # SP /\ ~IsWs(c) /\ ~Drawing(c) }
C04_OK(ev) ==
  LET crs == DrawCells(ev) T == OfKind(ev.doc, "text") IN
  /\ ev.doc.wf = 1
  /\ \A i \in T : TextMatches(crs, ev.doc.elems[i])
  /\ \A i, j \in T : i # j => TextCovered(ev.doc.elems[i]) \cap TextCovered(ev.doc.elems[j]) = {}
  /\ NonDrawingCells(crs) \subseteq UNION { TextCovered(ev.doc.elems[i]) : i \in T }
C04_NT(ev) == NonDrawingCells(DrawCells(ev)) # {}
\* the same on rows that contain quoted strings: a quoted string is shown by one text element anchored at its
\* opening quote (C15); every other text element shows the characters of the row with the quoted regions blanked
C04q_OK(ev) ==
  LET crs == DrawCells(ev)
      blanked == [r \in 1..Len(crs) |-> BlankQuoted(crs[r])]
      T == OfKind(ev.doc, "text")
      Q == { i \in T : IsQuotedText(crs, ev.doc.elems[i]) }
      P == T \ Q IN
  /\ ev.doc.wf = 1
  /\ \A i \in P : TextMatches(blanked, ev.doc.elems[i])
  /\ \A i, j \in P : i # j => TextCovered(ev.doc.elems[i]) \cap TextCovered(ev.doc.elems[j]) = {}
  /\ NonDrawingCells(blanked) \subseteq UNION { TextCovered(ev.doc.elems[i]) : i \in P }
  /\ \A r \in 1..Len(crs) : \A q \in 1..Len(QuotedTexts(crs[r], r)) :
        LET qt == QuotedTexts(crs[r], r)[q] IN
        Cardinality({ i \in T : ev.doc.elems[i].n = <<qt[1] * MILLI, qt[2] * MILLI>> /\ ev.doc.elems[i].s = qt[3] }) = 1

---------------------------------------------------------------------------
(* C15 — quoted text                                                                        *)
\* the code's mechanism for blanking (escape_line): prefix, then as many spaces as the cells the
\* content occupies (every non-filler character at least one cell) plus the two quotes
ContentCells(s) == FoldLeft(LAMBDA n, c : IF c = NUL THEN n ELSE n + CpCells(c), 0, s)
MechBlank(cr) ==
  LET segs == QuoteSegs(cr)
      step(st, sg) == [out |-> st.out \o SubSeq(cr, st.idx, sg[1] - 1) \o [j \in 1..(ContentCells(SubSeq(cr, sg[1] + 1, sg[2] - 1)) + 2) |-> SP],
                       idx |-> sg[2] + 1]
      st == FoldLeft(step, [out |-> <<>>, idx |-> 1], segs)
  IN st.out \o SubSeq(cr, st.idx, Len(cr))
QuotedElems(crs) ==
  FoldLeft(LAMBDA acc, r : acc \o [i \in 1..Len(QuotedTexts(crs[r], r)) |->
              LET q == QuotedTexts(crs[r], r)[i] IN
              [k |-> "text", n |-> <<q[1] * MILLI, q[2] * MILLI>>, role |-> <<0, 1>>, fl |-> <<>>, cls |-> <<>>, s |-> q[3], g |-> 0]],
           <<>>, [r \in 1..Len(crs) |-> r])
\* the statement's domain: no backslash inside a quoted segment (outside it is an ordinary drawing character, also
\* directly before an opening quote), and no brace (a quoted {tag} is a class tag by C16)
QuoteDomain(crs) == \A r \in 1..Len(crs) : \A p \in 1..Len(crs[r]) :
                       /\ crs[r][p] \notin {123, 125}
                       /\ InSeg(QuoteSegs(crs[r]), p) => crs[r][p] # 92
HasQuoted(crs) == \E r \in 1..Len(crs) : QuoteSegs(crs[r]) # <<>>
RStripCells(cr) == LET idx == { i \in 1..Len(cr) : cr[i] # SP } IN IF idx = {} THEN <<>> ELSE SubSeq(cr, 1, SetMax(idx))

---------------------------------------------------------------------------
(* C02 — one well-formed document that round-trips the text; C08 — only svgbob's vocabulary  *)
WellFormedDoc(doc) == doc.wf = 1 /\ doc.nroot = 1 /\ doc.ns = 1 /\ doc.whnum = 1 /\ doc.badnum = 0
\* a text element shows the input cells from its anchor, minus what XML cannot represent
ShownFrom(crs, e) ==
  /\ TextAnchorOK(e) /\ TextRow(e) \in 1..Len(crs)
  /\ LET cr == crs[TextRow(e)] c == TextCol(e) IN
     \/ \E kk \in 0..(Len(cr) - c + 1) : Shown(SubSeq(cr, c, c + kk - 1)) = e.s
     \/ \E kk \in 0..(Len(cr) - c) : c <= Len(cr) /\ cr[c] = QUOTE /\ Shown(SubSeq(cr, c + 1, c + kk)) = e.s
TextRoundTrip(crs, doc) == \A i \in OfKind(doc, "text") : ShownFrom(crs, doc.elems[i])
\* every character of the drawing that XML can represent and that is shown as text appears in
\* the read-back text: checked per channel through the expected strings carried by the event
IsSubSeqAt(s, t) == \E off \in 0..(Len(t) - Len(s)) : SubSeq(t, off + 1, off + Len(s)) = s
SomeTextIs(doc, s) == s = <<>> \/ \E i \in OfKind(doc, "text") : doc.elems[i].s = s
AnyStyleLineContains(doc, s) == \E i \in 1..Len(doc.style) : IsSubSeqAt(s, doc.style[i])
\* the event carries probe strings: input runs that must be read back as the character data of one
\* text element (plain and quoted channel) or inside the style text (legend channel), literally,
\* minus the characters XML cannot represent
C02_OK(ev) ==
  /\ WellFormedDoc(ev.doc)
  /\ \A i \in 1..Len(ev.expect_text) : SomeTextIs(ev.doc, Shown(ev.expect_text[i]))
  /\ \A i \in 1..Len(ev.expect_style) : AnyStyleLineContains(ev.doc, Shown(ev.expect_style[i]))
C02_NT(ev) == Len(ev.expect_text) + Len(ev.expect_style) > 0

VocabularyOnly(doc) ==
  /\ doc.wf = 1
  /\ doc.foreign = <<>> /\ doc.attrs_foreign = <<>>
  /\ doc.comments = 0 /\ doc.pis = 0 /\ doc.doctype = 0 /\ doc.cdata = 0 /\ doc.entities = 0 /\ doc.entityrefs = 0
  /\ doc.stray_text = 0 /\ doc.nroot = 1 /\ doc.ns = 1
  /\ \A i \in 1..Len(doc.clstok) : IsIdent(doc.clstok[i])
\* the payload's marker may surface only as character data of text/style or as a class token
MarkerConfined(doc, marker) ==
  \A i \in 1..Len(doc.namestok) : ~IsSubSeqAt(marker, doc.namestok[i])
C08_OK(ev) == VocabularyOnly(ev.doc) /\ MarkerConfined(ev.doc, ev.marker)
C08_NT(ev) == TRUE
\* ... and what the input spells is character data, literally: text that looks like an entity or a character reference
\* must read back as that text, not as the character it would denote (the event carries the payload runs)
C08v_OK(ev) ==
  /\ ev.doc.wf = 1            \* (an ill-formed document has no text or style to look at: C08 itself fails on it)
  /\ \A i \in 1..Len(ev.expect_text) : SomeTextIs(ev.doc, Shown(ev.expect_text[i]))
  /\ \A i \in 1..Len(ev.expect_style) : AnyStyleLineContains(ev.doc, Shown(ev.expect_style[i]))

---------------------------------------------------------------------------
(* C05 — rectangles: soundness for any document, completeness for the box family             *)
PureVertical == {58, 33, 9474, 9478, 9482, 9550, 9553, 9615, 9621}
PureHorizontal == {45, 126, 95, 61, 9472, 8211, 8212, 9476, 9552, 8254, 175}
HInterior(c) == Drawing(c) /\ c \notin PureVertical /\ c \notin {95, 8254, 175}
VInterior(c) == Drawing(c) /\ c \notin PureHorizontal
HBottomEdge(c) == c \in {95, 124} \/ (c >= 9601 /\ c <= 9608)       \* can stroke along the bottom edge of its cell
HTopEdge(c) == c \in {8254, 175, 124}
VRightEdge(c) == c = 9621
VLeftEdge(c) == c = 9615
CellAt(crs, row0, col0) == IF row0 + 1 \in 1..Len(crs) /\ col0 + 1 \in 1..Len(crs[row0 + 1]) THEN crs[row0 + 1][col0 + 1] ELSE SP
\* sample points along an edge, one per half cell, in lattice units
HSamples(x0, x1) == { x0 + 2 + 4 * i : i \in 0..((x1 - x0 - 1) \div 4) }
VSamples(y0, y1) == { y0 + 4 + 8 * i : i \in 0..((y1 - y0 - 1) \div 8) }
HEdgeSound(crs, x0, x1, y) == \A px \in HSamples(x0, x1) :
  LET c == px \div CW r == y \div CH IN
  IF y % CH # 0 THEN HInterior(CellAt(crs, r, c))
  ELSE HBottomEdge(CellAt(crs, r - 1, c)) \/ HTopEdge(CellAt(crs, r, c))
VEdgeSound(crs, y0, y1, x) == \A py \in VSamples(y0, y1) :
  LET c == x \div CW r == py \div CH IN
  IF x % CW # 0 THEN VInterior(CellAt(crs, r, c))
  ELSE VRightEdge(CellAt(crs, r, c - 1)) \/ VLeftEdge(CellAt(crs, r, c))
IsBoxRect(e) == IsRect(e) /\ ~HasCls(e, "filled")
\* (the four edges are the straight parts: a corner radius takes its extent off both ends of every edge)
RectSoundOne(crs, e) ==
  LET x == U(e.n[1]) y == U(e.n[2]) w == U(e.n[3]) h == U(e.n[4]) rr == U(e.n[5]) IN
  /\ AllOnLattice(e.n) /\ w > 0 /\ h > 0 /\ x >= 0 /\ y >= 0 /\ rr >= 0 /\ 2 * rr <= w /\ 2 * rr <= h
  /\ HEdgeSound(crs, x + rr, x + w - rr, y) /\ HEdgeSound(crs, x + rr, x + w - rr, y + h)
  /\ VEdgeSound(crs, y + rr, y + h - rr, x) /\ VEdgeSound(crs, y + rr, y + h - rr, x + w)
RectSound(crs, doc) == \A i \in Idx(doc) : IsBoxRect(doc.elems[i]) => RectSoundOne(crs, doc.elems[i])
C05s_OK(ev) == ev.doc.wf = 1 /\ RectSound(DrawCells(ev), ev.doc)
C05s_NT(ev) == ev.doc.wf = 1 /\ \E i \in Idx(ev.doc) : IsBoxRect(ev.doc.elems[i])

\* the box family.  ev.box = [k, n (offset in cells), w, h (interior size)]
AsciiTL == {43, 46, 44}  AsciiTR == {43, 46}  AsciiBL == {43, 39, 96}  AsciiBR == {43, 39}
BoxHz == {45, 126}  BoxSide == {124, 58, 33}
UniTL == {9484, 9581} UniTR == {9488, 9582} UniBL == {9492, 9584} UniBR == {9496, 9583}
UniHz == {9472, 9476} UniSide == {9474, 9482, 9478, 9550}
DashedCp == {126, 58, 33, 9476, 9482, 9478, 9550}
PlainLabel(c) == (Alpha(c) \/ Digit(c)) /\ ~Drawing(c)
\* plain text inside a box: letters and digits of any script, nothing with a drawing meaning, no quote, brace or blank-like character
BoxLabel(c) == PlainLabel(c) \/ (c > 160 /\ ~Drawing(c) /\ ~IsWs(c) /\ XmlChar(c))
BoxRowsOKc(rows, b) ==
  LET k == b.k top == b.n + 1 bot == b.n + b.h + 2 L0 == k + 1 R0 == k + b.w + 2 IN
  /\ Len(rows) = bot
  /\ \A r \in 1..b.n : rows[r] = <<>>
  /\ \A r \in top..bot : Len(rows[r]) = R0 /\ \A c \in 1..k : rows[r][c] = SP
  /\ LET tl == rows[top][L0] tr == rows[top][R0] bl == rows[bot][L0] br == rows[bot][R0]
         ascii == tl \in AsciiTL
         sharp == tl \in {43, 9484}
         \* edges and sides may be drawn in either alphabet, whatever the corners are
         hz == BoxHz \cup UniHz
         side == BoxSide \cup UniSide IN
     /\ (ascii => tr \in AsciiTR /\ bl \in AsciiBL /\ br \in AsciiBR) /\ (~ascii => tl \in UniTL /\ tr \in UniTR /\ bl \in UniBL /\ br \in UniBR)
     /\ (sharp => (tr \in {43, 9488} /\ bl \in {43, 9492} /\ br \in {43, 9496}))
     /\ (~sharp => (tr \notin {43, 9488} /\ bl \notin {43, 9492} /\ br \notin {43, 9496} /\ b.w >= 1))
     /\ \A c \in (L0 + 1)..(R0 - 1) : rows[top][c] \in hz /\ rows[bot][c] \in hz
     /\ \A r \in (top + 1)..(bot - 1) :
          /\ rows[r][L0] \in side /\ rows[r][R0] \in side
          /\ \A c \in (L0 + 1)..(R0 - 1) : rows[r][c] \in {SP, NUL} \/ BoxLabel(rows[r][c])
     \* a side is a '|' side: it contains a '|', and every dashed character continues a vertical stroke
     /\ \A col \in {L0, R0} :
          /\ (b.h >= 1 => \E r \in (top + 1)..(bot - 1) : rows[r][col] \in {124, 9474})
          /\ \A r \in (top + 1)..(bot - 1) : rows[r][col] \in {58, 33} =>
                (r - 1 > top /\ rows[r - 1][col] \in BoxSide) \/ (r + 1 < bot /\ rows[r + 1][col] \in BoxSide)
\* (checked on cell rows: a double-width label character takes two columns, the second one a filler)
BoxRowsOK(rawrows, b) == BoxRowsOKc(CellRows(rawrows), b)
BoxDashed(rawrows, b) == LET rows == CellRows(rawrows) IN
                         \E r \in (b.n + 1)..(b.n + b.h + 2) : \E c \in (b.k + 1)..(b.k + b.w + 2) : rows[r][c] \in DashedCp
BoxRounded(rawrows, b) == CellRows(rawrows)[b.n + 1][b.k + 1] \notin {43, 9484}
C05box_OK(ev) ==
  LET b == ev.box R == { i \in Idx(ev.doc) : IsRect(ev.doc.elems[i]) } crs == DrawCells(ev) IN
  /\ ev.doc.wf = 1
  /\ BoxRowsOK(ev.rows, b)
  /\ Cardinality(R) = 1
  /\ LET e == ev.doc.elems[CHOOSE i \in R : TRUE] IN
     /\ e.n[1] = (b.k * CW + 4) * MILLI /\ e.n[2] = (b.n * CH + 8) * MILLI
     /\ e.n[3] = (b.w + 1) * CW * MILLI /\ e.n[4] = (b.h + 1) * CH * MILLI
     /\ e.n[5] = (IF BoxRounded(ev.rows, b) THEN 4 * MILLI ELSE 0)
     /\ (IsBroken(e) <=> BoxDashed(ev.rows, b)) /\ (IsSolid(e) <=> ~BoxDashed(ev.rows, b))
     /\ HasCls(e, "nofill") /\ e.g = 0
  /\ \A i \in Idx(ev.doc) : i \notin R => IsText(ev.doc.elems[i]) /\ TextMatches(crs, ev.doc.elems[i])
  /\ NonDrawingCells(crs) \subseteq UNION { TextCovered(ev.doc.elems[i]) : i \in OfKind(ev.doc, "text") }

\* several boxes on one page, close enough to share a span (a caption squeezed between two of them, corner to corner on
\* a diagonal, a column of letters between two side by side): ev.boxes = sequence of [k, n, w, h].  Each is a box of the
\* family where it stands, and the rect elements of the document are exactly theirs - one per box, each with its own
\* position, size, radius and class, whatever the other boxes are.
At1(crs, r, c) == IF r \in 1..Len(crs) /\ c \in 1..Len(crs[r]) THEN crs[r][c] ELSE SP
BoxAtOK(crs, b) ==
  LET top == b.n + 1 bot == b.n + b.h + 2 L0 == b.k + 1 R0 == b.k + b.w + 2
      tl == At1(crs, top, L0) tr == At1(crs, top, R0) bl == At1(crs, bot, L0) br == At1(crs, bot, R0)
      ascii == tl \in AsciiTL
      sharp == tl \in {43, 9484}
      hz == BoxHz \cup UniHz
      side == BoxSide \cup UniSide IN
  /\ (ascii => tr \in AsciiTR /\ bl \in AsciiBL /\ br \in AsciiBR) /\ (~ascii => tl \in UniTL /\ tr \in UniTR /\ bl \in UniBL /\ br \in UniBR)
  /\ (sharp => (tr \in {43, 9488} /\ bl \in {43, 9492} /\ br \in {43, 9496}))
  /\ (~sharp => (tr \notin {43, 9488} /\ bl \notin {43, 9492} /\ br \notin {43, 9496} /\ b.w >= 1))
  /\ \A c \in (L0 + 1)..(R0 - 1) : At1(crs, top, c) \in hz /\ At1(crs, bot, c) \in hz
  /\ \A r \in (top + 1)..(bot - 1) :
       /\ At1(crs, r, L0) \in side /\ At1(crs, r, R0) \in side
       /\ \A c \in (L0 + 1)..(R0 - 1) : At1(crs, r, c) \in {SP, NUL} \/ BoxLabel(At1(crs, r, c))
  /\ \A col \in {L0, R0} :
       /\ (b.h >= 1 => \E r \in (top + 1)..(bot - 1) : At1(crs, r, col) \in {124, 9474})
       /\ \A r \in (top + 1)..(bot - 1) : At1(crs, r, col) \in {58, 33} =>
             (r - 1 > top /\ At1(crs, r - 1, col) \in BoxSide) \/ (r + 1 < bot /\ At1(crs, r + 1, col) \in BoxSide)
BoxAtDashed(crs, b) == \E r \in (b.n + 1)..(b.n + b.h + 2) : \E c \in (b.k + 1)..(b.k + b.w + 2) : At1(crs, r, c) \in DashedCp
BoxAtRounded(crs, b) == At1(crs, b.n + 1, b.k + 1) \notin {43, 9484}
RectIsBox(e, crs, b) ==
  /\ e.n[1] = (b.k * CW + 4) * MILLI /\ e.n[2] = (b.n * CH + 8) * MILLI
  /\ e.n[3] = (b.w + 1) * CW * MILLI /\ e.n[4] = (b.h + 1) * CH * MILLI
  /\ e.n[5] = (IF BoxAtRounded(crs, b) THEN 4 * MILLI ELSE 0)
  /\ (IsBroken(e) <=> BoxAtDashed(crs, b)) /\ (IsSolid(e) <=> ~BoxAtDashed(crs, b))
  /\ HasCls(e, "nofill") /\ e.g = 0
C05multi_OK(ev) ==
  LET crs == DrawCells(ev) R == { i \in Idx(ev.doc) : IsRect(ev.doc.elems[i]) } IN
  /\ ev.doc.wf = 1
  /\ \A j \in 1..Len(ev.boxes) : BoxAtOK(crs, ev.boxes[j])
  /\ Cardinality(R) = Len(ev.boxes)
  /\ \A j \in 1..Len(ev.boxes) : \E i \in R : RectIsBox(ev.doc.elems[i], crs, ev.boxes[j])
  /\ NonDrawingCells(crs) \subseteq UNION { TextCovered(ev.doc.elems[i]) : i \in OfKind(ev.doc, "text") }

\* the marker definitions the bullets refer to (doc.markers, in 1/64 of the markers' own units): a bullet's line carries the
\* class end_marked_<id>; the marker with that id is one circle centred on the marker's reference point, filled for '*',
\* background-filled for 'o' and 'O', and what is drawn for 'O' is larger than what is drawn for 'o', which is as large as
\* what is drawn for '*' (drawn radius = r x markerWidth / viewBox width: compared by cross-multiplication).  Holds or fails
\* whatever the scale: marker units are not user-space lengths.
IdCircle == <<99, 105, 114, 99, 108, 101>>
IdOpen == <<111, 112, 101, 110, 95, 99, 105, 114, 99, 108, 101>>
IdBigOpen == <<98, 105, 103, 95>> \o IdOpen
MarkersWithId(doc, id) == { i \in 1..Len(doc.markers) : doc.markers[i].id = id }
Drawn(m, other) == m.n[3] * m.size[1] * other.vb[3]      \* proportional to the drawn radius, on the common denominator
BulletMarkersOK(doc) ==
  /\ \A id \in {IdCircle, IdOpen, IdBigOpen} : Cardinality(MarkersWithId(doc, id)) = 1
  /\ LET mc == doc.markers[CHOOSE i \in MarkersWithId(doc, IdCircle) : TRUE]
         mo == doc.markers[CHOOSE i \in MarkersWithId(doc, IdOpen) : TRUE]
         mb == doc.markers[CHOOSE i \in MarkersWithId(doc, IdBigOpen) : TRUE] IN
     /\ \A m \in {mc, mo, mb} : /\ m.shape = "circle" /\ Len(m.n) = 3 /\ m.n[1] = m.ref[1] /\ m.n[2] = m.ref[2]
                                /\ m.size[1] > 0 /\ m.size[1] = m.size[2] /\ m.vb[3] > 0 /\ m.vb[3] = m.vb[4]
     /\ "filled" \in RangeOf(mc.cls) /\ "bg_filled" \in RangeOf(mo.cls) /\ "bg_filled" \in RangeOf(mb.cls)
     /\ Drawn(mb, mo) > Drawn(mo, mb)
     /\ Drawn(mo, mc) = Drawn(mc, mo)

---------------------------------------------------------------------------
(* C13 — catalogue circles.  ev.circ = [idx, k, n, extra]                                   *)
DrawingW(D) == SetMax({ Len(D[r]) : r \in 1..Len(D) })
Flush(D) == \E r \in 1..Len(D) : Len(D[r]) > 0 /\ D[r][1] \in {47, 92}
RadiusOf(D) == IF Flush(D) THEN DrawingW(D) * 4 ELSE (DrawingW(D) - 1) * 4         \* lattice units
LeftOf(D, k) == IF Flush(D) THEN CW * k ELSE CW * k + 4
PlacedRows(D, k, n) == [i \in 1..n |-> <<>>] \o [i \in 1..Len(D) |-> [j \in 1..k |-> SP] \o D[i]]
\* every character of the drawing lies within about one cell (1 1/4 cell heights = 20 units) of the circle
NearCircle(D, k, n, cx, cy, rad) ==
  \A i \in 1..Len(D) : \A j \in 1..Len(D[i]) : D[i][j] # SP =>
     LET px == CW * (k + j - 1) + 4  py == CH * (n + i - 1) + 8
         d2 == (px - cx) * (px - cx) + (py - cy) * (py - cy)
         lo == IF rad > 20 THEN (rad - 20) * (rad - 20) ELSE 0 IN
     lo <= d2 /\ d2 <= (rad + 20) * (rad + 20)
\* rows with the character ch written into the (blank) cell lx, ly (0-based; ly is one of the rows)
CellBlank(rows, lx, ly) == ly + 1 \in 1..Len(rows) /\ (lx + 1 > Len(rows[ly + 1]) \/ rows[ly + 1][lx + 1] = SP)
NotTouching(rows, lx, ly) == \A r \in 1..Len(rows) : \A j \in 1..Len(rows[r]) :
                               rows[r][j] # SP => (j - 1 - lx) \notin -1..1 \/ (r - 1 - ly) \notin -1..1
WithLabel(rows, lx, ly, ch) ==
  [r \in 1..Len(rows) |->
     IF r # ly + 1 THEN rows[r]
     ELSE [j \in 1..(IF lx + 1 > Len(rows[r]) THEN lx + 1 ELSE Len(rows[r])) |->
             IF j = lx + 1 THEN ch ELSE IF j <= Len(rows[r]) THEN rows[r][j] ELSE SP]]
\* the drawing at cell column k of rows n+1.., with anything that is not a drawing character left and right of it on
\* the same rows, at least two blank cells away from the drawing's columns
BesideRows(rows, D, k, n) ==
  /\ Len(rows) = n + Len(D) /\ \A i \in 1..n : rows[i] = <<>>
  /\ \A i \in 1..Len(D) :
       LET cr == CellRow(rows[n + i]) lo == k + 1 hi == k + DrawingW(D) IN
       /\ Len(cr) >= k + Len(D[i]) /\ SubSeq(cr, k + 1, k + Len(D[i])) = D[i]
       /\ \A p \in 1..Len(cr) :
            /\ (p > k + Len(D[i]) /\ p <= hi + 2) => cr[p] = SP
            /\ (p >= lo - 2 /\ p < lo) => cr[p] = SP
            /\ (p < lo \/ p > hi) => (cr[p] \in {SP, NUL} \/ ~Drawing(cr[p]))
\* the drawing's cells are where they are claimed to be, and every other cell within one cell of them is blank
InScene(rows, D, k, n) ==
  LET AtS(r, c) == IF r \in 1..Len(rows) /\ c \in 1..Len(rows[r]) THEN rows[r][c] ELSE SP
      own == { <<n + i, k + j>> : i \in 1..Len(D), j \in 1..DrawingW(D) } \cap { <<n + i, k + j>> : i \in 1..Len(D), j \in 1..DrawingW(D) }
      mine == { p \in own : LET i == p[1] - n j == p[2] - k IN j <= Len(D[i]) /\ D[i][j] # SP } IN
  /\ \A p \in mine : AtS(p[1], p[2]) = D[p[1] - n][p[2] - k]
  /\ \A p \in mine : \A dr \in -1..1, dc \in -1..1 :
        <<p[1] + dr, p[2] + dc>> \notin mine => AtS(p[1] + dr, p[2] + dc) = SP
CircleOracle(D, k, n, e) ==
  /\ IsCircle(e) /\ AllOnLattice(e.n)
  /\ U(e.n[3]) = RadiusOf(D)
  /\ U(e.n[1]) - U(e.n[3]) = LeftOf(D, k)
  /\ NearCircle(D, k, n, U(e.n[1]), U(e.n[2]), U(e.n[3]))
C13_OK(ev) ==
  LET D == CircleDrawings[ev.circ.idx] k == ev.circ.k n == ev.circ.n
      \* (extra = 4: unrelated content ABOVE the drawing; only the circles of the drawing's own rows are counted)
      \* (extra = 5: the drawing stands in a picture of other shapes - inside a frame, between long diagonals, in a box - touching
      \*  nothing; the circles whose centre lies in the drawing's own rectangle of cells are counted)
      InOwnBox(e) == /\ e.n[1] >= k * CW * MILLI /\ e.n[1] <= (k + DrawingW(D)) * CW * MILLI
                     /\ e.n[2] >= n * CH * MILLI /\ e.n[2] <= (n + Len(D)) * CH * MILLI
      C == { i \in Idx(ev.doc) : IsCircle(ev.doc.elems[i]) /\ (ev.circ.extra = 4 => ev.doc.elems[i].n[2] >= n * CH * MILLI)
                                                          /\ (ev.circ.extra = 5 => InOwnBox(ev.doc.elems[i])) } IN
  /\ ev.doc.wf = 1
  /\ IF ev.circ.extra = 3 THEN BesideRows(ev.rows, D, k, n)
     ELSE IF ev.circ.extra = 5 THEN InScene(ev.rows, D, k, n)
     ELSE IF ev.circ.extra = 4 THEN /\ n >= 1 /\ Len(ev.rows) = n + Len(D) /\ ev.rows[n] = <<>>
                                    /\ SubSeq(ev.rows, n + 1, n + Len(D)) = SubSeq(PlacedRows(D, k, n), n + 1, n + Len(D))
     ELSE IF ev.circ.extra = 2 THEN ev.rows = WithLabel(PlacedRows(D, k, n), ev.circ.lx, ev.circ.ly, ev.circ.lch)
                                /\ CellBlank(PlacedRows(D, k, n), ev.circ.lx, ev.circ.ly)
                                /\ NotTouching(PlacedRows(D, k, n), ev.circ.lx, ev.circ.ly)
     ELSE SubSeq(ev.rows, 1, n + Len(D)) = PlacedRows(D, k, n)
  /\ Cardinality(C) = 1
  /\ CircleOracle(D, k, n, ev.doc.elems[CHOOSE i \in C : TRUE])
  /\ IF ev.circ.extra = 0 THEN Len(ev.doc.elems) = 1 /\ Len(ev.rows) = n + Len(D)
     ELSE IF ev.circ.extra = 5 THEN TRUE        \* whatever the rest of the picture becomes: the drawing is one circle, once
     ELSE IF ev.circ.extra = 4
     THEN \* whatever stands above, separated by a blank row, stays above the drawing's first row
          \A i \in Idx(ev.doc) : i \notin C =>
               \A j \in 1..Len(ev.doc.elems[i].n) : ev.doc.elems[i].role[j] = 1 => ev.doc.elems[i].n[j] <= n * CH * MILLI     \* (arcs of the tables may reach into the blank row)
     ELSE IF ev.circ.extra = 3
     THEN \* unrelated words (also quoted, also many of them) left and right of the drawing on its own rows: texts only
          \A i \in Idx(ev.doc) : i \notin C => IsText(ev.doc.elems[i])
     ELSE IF ev.circ.extra = 2
     THEN \* one plain label character in a blank cell of the drawing's rows, not touching the drawing:
          \* the circle, and that character as text in its own cell, and nothing else
          /\ Len(ev.doc.elems) = 2
          /\ \E i \in Idx(ev.doc) : /\ IsText(ev.doc.elems[i]) /\ ev.doc.elems[i].s = <<ev.circ.lch>>
                                     /\ ev.doc.elems[i].n = <<(ev.circ.lx * CW + 2) * MILLI, (ev.circ.ly * CH + 12) * MILLI>>
     ELSE \* unrelated content below, separated by a blank row: nothing else inside the drawing's rows
          /\ Len(ev.rows) > n + Len(D) /\ ev.rows[n + Len(D) + 1] = <<>>
          /\ \A i \in Idx(ev.doc) : i \notin C =>
               \A j \in 1..Len(ev.doc.elems[i].n) : ev.doc.elems[i].role[j] = 1 => ev.doc.elems[i].n[j] >= (n + Len(D) + 1) * CH * MILLI

---------------------------------------------------------------------------
(* C14 — arrowheads, bullets, rounded corners (all in 1/8 lattice units, integers)           *)
Rep(ch, cnt) == [j \in 1..cnt |-> ch]
\* ev.arrow = [dir, len, k, n, g (glyph), body (line character)]
ArrowRows(a) ==
  LET pre == [i \in 1..a.n |-> <<>>] L == a.len IN
  pre \o
  (CASE a.dir = "r"  -> << Rep(SP, a.k) \o Rep(a.body, L) \o <<a.g>> >>
     [] a.dir = "l"  -> << Rep(SP, a.k) \o <<a.g>> \o Rep(a.body, L) >>
     [] a.dir = "u"  -> << Rep(SP, a.k) \o <<a.g>> >> \o [i \in 1..L |-> Rep(SP, a.k) \o <<a.body>>]
     [] a.dir = "d"  -> [i \in 1..L |-> Rep(SP, a.k) \o <<a.body>>] \o << Rep(SP, a.k) \o <<a.g>> >>
     [] a.dir = "dr" -> [i \in 1..L |-> Rep(SP, a.k + i - 1) \o <<a.body>>] \o << Rep(SP, a.k + L) \o <<a.g>> >>
     [] a.dir = "dl" -> [i \in 1..L |-> Rep(SP, a.k + L - i + 1) \o <<a.body>>] \o << Rep(SP, a.k) \o <<a.g>> >>
     [] a.dir = "ul" -> << Rep(SP, a.k) \o <<a.g>> >> \o [i \in 1..L |-> Rep(SP, a.k + i) \o <<a.body>>]
     [] OTHER        -> << Rep(SP, a.k + L) \o <<a.g>> >> \o [i \in 1..L |-> Rep(SP, a.k + L - i) \o <<a.body>>])
\* the cell (0-based column, row) of the arrow glyph
ArrowCell(a) ==
  CASE a.dir = "r" -> <<a.k + a.len, a.n>> [] a.dir = "l" -> <<a.k, a.n>>
    [] a.dir = "u" -> <<a.k, a.n>> [] a.dir = "d" -> <<a.k, a.n + a.len>>
    [] a.dir = "dr" -> <<a.k + a.len, a.n + a.len>> [] a.dir = "dl" -> <<a.k, a.n + a.len>>
    [] a.dir = "ul" -> <<a.k, a.n>> [] OTHER -> <<a.k + a.len, a.n>>
Dot(p, q) == p[1] * q[1] + p[2] * q[2]
Sub(p, q) == <<p[1] - q[1], p[2] - q[2]>>
PolyPts(e) == [i \in 1..(Len(e.n) \div 2) |-> <<E8(e.n[2 * i - 1]), E8(e.n[2 * i])>>]
InCellBox(P, cell) == /\ P[1] >= cell[1] * 64 /\ P[1] <= (cell[1] + 1) * 64
                      /\ P[2] >= cell[2] * 128 /\ P[2] <= (cell[2] + 1) * 128
\* with the line oriented A -> B (B is the end the head sits on)
ArrowGeom(A, B, pts, cell) ==
  LET v == Sub(B, A) pr(P) == Dot(Sub(P, A), v)
      tip == CHOOSE i \in 1..3 : \A j \in 1..3 : pr(pts[j]) <= pr(pts[i])
      others == (1..3) \ {tip}
      q1 == pts[CHOOSE i \in others : TRUE] q2 == pts[CHOOSE i \in others : pts[i] # q1 \/ Cardinality(others) = 1] IN
  /\ v # <<0, 0>>
  /\ Cross(A, B, pts[tip]) = 0                                   \* tip on the line's axis
  /\ pr(pts[tip]) > pr(B)                                        \* beyond the line's end
  /\ \A j \in others : pr(pts[j]) < pr(pts[tip])               \* points away from the line
  /\ \E i, j \in others : Cross(A, B, pts[i]) > 0 /\ Cross(A, B, pts[j]) < 0    \* base straddles the axis
  /\ \A j \in others : pr(pts[j]) >= pr(B) - Dot(v, v)          \* the base is at the head's end of the line
  /\ InCellBox(pts[tip], cell)                                   \* the tip sits in the glyph's cell
C14arrow_OK(ev) ==
  LET a == ev.arrow
      P == { i \in Idx(ev.doc) : IsPolygon(ev.doc.elems[i]) }
      Ls == { i \in Idx(ev.doc) : IsLine(ev.doc.elems[i]) } IN
  /\ ev.doc.wf = 1 /\ ev.rows = ArrowRows(a)
  /\ Cardinality(P) = 1 /\ Cardinality(Ls) = 1 /\ Len(ev.doc.elems) = 2
  /\ LET pe == ev.doc.elems[CHOOSE i \in P : TRUE] le == ev.doc.elems[CHOOSE i \in Ls : TRUE]
         pts == PolyPts(pe) IN
     /\ HasCls(pe, "filled") /\ Len(pts) = 3 /\ IsPlainLine(le)
     /\ (ArrowGeom(LP1(le), LP2(le), pts, ArrowCell(a)) \/ ArrowGeom(LP2(le), LP1(le), pts, ArrowCell(a)))

\* ev.bullet = [ch (star, o, O), pos ("start" | "end" | "mid"), len, k, n, dir ("h": a horizontal run, "v": a vertical
\* run), body (the run's character: a dash, a tilde, a box-drawing stroke ... / a bar, a colon, an exclamation mark ...)]
BulletCol(b) == CASE b.pos = "start" -> <<b.ch>> \o Rep(b.body, b.len)
                  [] b.pos = "end" -> Rep(b.body, b.len) \o <<b.ch>>
                  [] OTHER -> Rep(b.body, b.len) \o <<b.ch>> \o Rep(b.body, b.len)
\* dir "h": one row; "v": one column; "b": one cell further right on every row (a run of backslashes); "s": one cell
\* further left on every row (a run of slashes)
BulletRows(b) ==
  [i \in 1..b.n |-> <<>>] \o
  (LET col == BulletCol(b) IN
   CASE b.dir = "h" -> << Rep(SP, b.k) \o col >>
     [] b.dir = "v" -> [i \in 1..Len(col) |-> Rep(SP, b.k) \o <<col[i]>>]
     [] b.dir = "b" -> [i \in 1..Len(col) |-> Rep(SP, b.k + i - 1) \o <<col[i]>>]
     [] OTHER -> [i \in 1..Len(col) |-> Rep(SP, b.k + Len(col) - i) \o <<col[i]>>])
DashedBody(c) == c \in {126, 58, 33, 9476, 9478, 9480, 9482}
BulletIdx(b) == IF b.pos = "start" THEN 0 ELSE b.len         \* position of the bullet along the run (0-based)
MarkerClass(ch) == IF ch = 42 THEN "marked_circle" ELSE IF ch = 111 THEN "marked_open_circle" ELSE "marked_big_open_circle"
C14bullet_OK(ev) ==
  LET b == ev.bullet
      idx == BulletIdx(b)
      total == Len(BulletCol(b))
      centre == CASE b.dir = "h" -> <<((b.k + idx) * CW + 4) * MILLI, (b.n * CH + 8) * MILLI>>
                  [] b.dir = "v" -> <<(b.k * CW + 4) * MILLI, ((b.n + idx) * CH + 8) * MILLI>>
                  [] b.dir = "b" -> <<((b.k + idx) * CW + 4) * MILLI, ((b.n + idx) * CH + 8) * MILLI>>
                  [] OTHER -> <<((b.k + total - 1 - idx) * CW + 4) * MILLI, ((b.n + idx) * CH + 8) * MILLI>>
      \* direction of the run's axis
      dx == CASE b.dir = "h" -> 1 [] b.dir = "v" -> 0 [] b.dir = "b" -> CW [] OTHER -> 0 - CW
      dy == CASE b.dir = "h" -> 0 [] b.dir = "v" -> 1 [] OTHER -> CH
      onAxis(x, y) == (x - centre[1]) * dy - (y - centre[2]) * dx = 0
      marked(e) == \/ (HasCls(e, "end_" \o MarkerClass(b.ch)) /\ <<e.n[3], e.n[4]>> = centre)
                   \/ (HasCls(e, "start_" \o MarkerClass(b.ch)) /\ <<e.n[1], e.n[2]>> = centre) IN
  /\ ev.doc.wf = 1 /\ ev.rows = BulletRows(b)
  \* the marker the class refers to is the documented kind (documents of the real code carry their marker definitions;
  \* the model's documents do not)
  /\ (("markers" \in DOMAIN ev.doc /\ ev.doc.ndefs = 1) => BulletMarkersOK(ev.doc))
  /\ \E i \in Idx(ev.doc) : IsLine(ev.doc.elems[i]) /\ marked(ev.doc.elems[i])
  /\ (\E i \in Idx(ev.doc) : IsLine(ev.doc.elems[i]) /\ HasCls(ev.doc.elems[i], "broken")) <=> DashedBody(b.body)
  /\ \A i \in Idx(ev.doc) : IsLine(ev.doc.elems[i]) \/ IsText(ev.doc.elems[i])
  /\ \A i \in OfKind(ev.doc, "text") : b.ch \notin RangeOf(ev.doc.elems[i].s)        \* the bullet is not shown as text
  /\ \A i \in Idx(ev.doc) : IsLine(ev.doc.elems[i]) =>                               \* every line lies on the run's axis
        onAxis(ev.doc.elems[i].n[1], ev.doc.elems[i].n[2]) /\ onAxis(ev.doc.elems[i].n[3], ev.doc.elems[i].n[4])

\* bullets and arrowheads in company (every neighbourhood of the glyph tables, MC_Nbhd): where the SPECIFICATION's glyph rules attach
\* a bullet to a line (the model's document has a marker line ending in the bullet's cell) or end a line in an arrowhead (the
\* model's document has a polygon there), the real document has the marker line with that end and that kind - and does not show
\* the bullet as text - respectively a filled three-vertex polygon in the same place.  ev.expect = [markers |-> << <<x, y, class>> >>,
\* polys |-> << <<x0, y0, x1, y1>> >>] in lattice units, computed from the model's document by the driver.
C14m_OK(ev) ==
  /\ ev.doc.wf = 1
  /\ \A q \in 1..Len(ev.expect.markers) :
        LET m == ev.expect.markers[q] IN
        /\ \E i \in Idx(ev.doc) : LET e == ev.doc.elems[i] IN
              IsLine(e) /\ \/ (HasCls(e, "end_" \o m[3]) /\ e.n[3] = m[1] * MILLI /\ e.n[4] = m[2] * MILLI)
                           \/ (HasCls(e, "start_" \o m[3]) /\ e.n[1] = m[1] * MILLI /\ e.n[2] = m[2] * MILLI)
        /\ \A i \in OfKind(ev.doc, "text") : LET e == ev.doc.elems[i] IN
              ~(TextAnchorOK(e) /\ TextRow(e) = (m[2] \div CH) + 1 /\ (m[1] \div CW) + 1 \in RangeOf(TextCols(e)))
  /\ \A q \in 1..Len(ev.expect.polys) :
        LET b == ev.expect.polys[q] IN
        \E i \in Idx(ev.doc) : LET e == ev.doc.elems[i] IN
           /\ e.k = "polygon" /\ HasCls(e, "filled") /\ Len(e.n) = 6
           /\ LET xs == { e.n[1], e.n[3], e.n[5] } ys == { e.n[2], e.n[4], e.n[6] } IN
              /\ SetMin(xs) <= b[3] * MILLI /\ SetMax(xs) >= b[1] * MILLI
              /\ SetMin(ys) <= b[4] * MILLI /\ SetMax(ys) >= b[2] * MILLI
C14m_NT(ev) == Len(ev.expect.markers) + Len(ev.expect.polys) > 0

\* ev.outline = [k, n, w, h, tl, tr, bl, br, off]: a rounded outline (interior w x h) with a two-dash stub on
\* the right side of its first interior row, so that it is not endorsed as a rect
\* o.off = 0: the corner characters stand in the sides' columns; o.off = 1: the offset form, corner characters one
\* column inside and the sides starting a row lower (a larger radius)
OutlineRows(o) ==
  [i \in 1..o.n |-> <<>>] \o
  << Rep(SP, o.k + o.off) \o <<o.tl>> \o Rep(DASH, o.w - 2 * o.off) \o <<o.tr>> >> \o
  [i \in 1..o.h |-> Rep(SP, o.k) \o <<BAR>> \o Rep(SP, o.w) \o <<BAR>> \o (IF i = 1 THEN <<DASH, DASH>> ELSE <<>>)] \o
  << Rep(SP, o.k + o.off) \o <<o.bl>> \o Rep(DASH, o.w - 2 * o.off) \o <<o.br>> >>
ArcP1(e) == <<E8(e.n[1]), E8(e.n[2])>>
ArcP2(e) == <<E8(e.n[5]), E8(e.n[6])>>
\* for a quarter arc the centre is one of the two "corner completions" of its chord; the sweep flag says
\* which: sweep = 1 puts the centre where cross(chord, centre - P1) > 0 (y grows downwards)
ArcCentre(e) ==
  LET p1 == ArcP1(e) p2 == ArcP2(e) c1 == <<p1[1], p2[2]>> c2 == <<p2[1], p1[2]>>
      cr(c) == (p2[1] - p1[1]) * (c[2] - p1[2]) - (p2[2] - p1[2]) * (c[1] - p1[1]) IN
  IF (e.fl[3] = 1) = (cr(c1) > 0) THEN c1 ELSE c2
ArcSharpCorner(e) == LET p1 == ArcP1(e) p2 == ArcP2(e) c == ArcCentre(e) IN
  IF c = <<p1[1], p2[2]>> THEN <<p2[1], p1[2]>> ELSE <<p1[1], p2[2]>>
C14corner_OK(ev) ==
  LET o == ev.outline
      x0 == (o.k * CW + 4) * 8  y0 == (o.n * CH + 8) * 8
      x1 == ((o.k + o.w + 1) * CW + 4) * 8  y1 == ((o.n + o.h + 1) * CH + 8) * 8
      corners == { <<x0, y0>>, <<x1, y0>>, <<x0, y1>>, <<x1, y1>> }
      A == { i \in Idx(ev.doc) : IsPath(ev.doc.elems[i]) }
      Ls == { i \in Idx(ev.doc) : IsLine(ev.doc.elems[i]) }
      lineEnds == UNION { { LP1(ev.doc.elems[i]), LP2(ev.doc.elems[i]) } : i \in Ls } IN
  /\ ev.doc.wf = 1 /\ ev.rows = OutlineRows(o)
  /\ Cardinality(A) = 4
  /\ \A i \in Idx(ev.doc) : ~IsRect(ev.doc.elems[i])
  /\ \A i \in A : LET e == ev.doc.elems[i] IN
        /\ Len(e.fl) = 3 /\ e.fl[2] = 0 /\ e.n[3] = e.n[4]                                    \* small circular arc
        /\ Abs(ArcP1(e)[1] - ArcP2(e)[1]) = E8(e.n[3]) /\ Abs(ArcP1(e)[2] - ArcP2(e)[2]) = E8(e.n[3])   \* a quarter
        /\ ArcP1(e) \in lineEnds /\ ArcP2(e) \in lineEnds                                     \* outline is continuous
        /\ ArcSharpCorner(e) \in corners                                                       \* bulges outward:
        /\ LET c == ArcCentre(e) IN c[1] > x0 /\ c[1] < x1 /\ c[2] > y0 /\ c[2] < y1           \* centre on the inner side
  /\ { ArcSharpCorner(ev.doc.elems[i]) : i \in A } = corners
  \* the outline is closed: on each of the four sides the stretch between the two arcs is covered by lines on that side
  /\ LET arcEnds == UNION { { ArcP1(ev.doc.elems[i]), ArcP2(ev.doc.elems[i]) } : i \in A }
         lineH(i, y, sx) == LET a == LP1(ev.doc.elems[i]) b == LP2(ev.doc.elems[i]) IN
                              a[2] = y /\ b[2] = y /\ ((a[1] <= sx /\ sx <= b[1]) \/ (b[1] <= sx /\ sx <= a[1]))
         lineV(i, x, sy) == LET a == LP1(ev.doc.elems[i]) b == LP2(ev.doc.elems[i]) IN
                              a[1] = x /\ b[1] = x /\ ((a[2] <= sy /\ sy <= b[2]) \/ (b[2] <= sy /\ sy <= a[2]))
         HCovered(y) == LET xs == { q[1] : q \in { e \in arcEnds : e[2] = y } } IN
                          /\ Cardinality(xs) = 2
                          /\ \A j \in 0..((SetMax(xs) - SetMin(xs)) \div 8) : \E i \in Ls : lineH(i, y, SetMin(xs) + 8 * j)
         VCovered(x) == LET ys == { q[2] : q \in { e \in arcEnds : e[1] = x } } IN
                          /\ Cardinality(ys) = 2
                          /\ \A j \in 0..((SetMax(ys) - SetMin(ys)) \div 8) : \E i \in Ls : lineV(i, x, SetMin(ys) + 8 * j)
     IN HCovered(y0) /\ HCovered(y1) /\ VCovered(x0) /\ VCovered(x1)

---------------------------------------------------------------------------
(* C16 — legend entries become CSS rules; {tags} style the innermost enclosing shape         *)
\* ev.legend = [entries |-> << <<name, decl, eqstyle>>, ... >>]; eqstyle 0: "name = {decl}", 1: "name={decl}",
\* 2: "name  =<TAB> {decl}" (an entry starts its line: no leading blanks).  The legend text the driver claims to have appended:
Join(seqs, sep) == IF seqs = <<>> THEN <<>> ELSE FoldLeft(LAMBDA a, x : a \o sep \o x, seqs[1], SubSeq(seqs, 2, Len(seqs)))
EntryText(en) == CASE en[3] = 1 -> en[1] \o <<61, 123>> \o en[2] \o <<125>>
                   [] en[3] = 2 -> en[1] \o <<32, 32, 61, 9, 32, 123>> \o en[2] \o <<125>>
                   [] OTHER -> en[1] \o <<32, 61, 32, 123>> \o en[2] \o <<125>>
RuleText(en) == <<46, 115, 118, 103, 98, 111, 98, 32, 46>> \o en[1] \o <<123, 32>> \o en[2] \o <<32, 125>>   \* ".svgbob .name{ decl }"
FlatRows(rows) == Join(rows, <<10>>)
EndsWith(t, suffix) == Len(suffix) <= Len(t) /\ SubSeq(t, Len(t) - Len(suffix) + 1, Len(t)) = suffix
TrimTrailingLF(t) == LET idx == { i \in 1..Len(t) : t[i] \notin {10, 32, 9, 13} } IN IF idx = {} THEN <<>> ELSE SubSeq(t, 1, SetMax(idx))
\* the texts occur in t one after the other (not overlapping), in this order
FirstAt(t, x, from) == LET S == { p \in from..(Len(t) - Len(x) + 1) : SubSeq(t, p, p + Len(x) - 1) = x } IN IF S = {} THEN 0 ELSE SetMin(S)
InOrderIn(t, xs) ==
  LET RECURSIVE Go(_, _)
      Go(i, from) == IF i > Len(xs) THEN TRUE
                     ELSE LET p == FirstAt(t, xs[i], from) IN p # 0 /\ Go(i + 1, p + Len(xs[i]))
  IN Go(1, 1)
C16legend_OK(ev) ==
  LET la == LegendAt(ev.rows) ents == ev.legend.entries
      after == SubSeq(ev.rows, la + 1, Len(ev.rows)) IN
  /\ ev.doc.wf = 1 /\ la > 0
  /\ \A i \in 1..Len(ents) : IsIdent(ents[i][1]) /\ 123 \notin RangeOf(ents[i][2]) /\ 125 \notin RangeOf(ents[i][2])
  /\ TrimTrailingLF(FlatRows(after)) = Join([i \in 1..Len(ents) |-> EntryText(ents[i])], <<10>>)      \* the input is the claimed legend
  \* never drawn: every y-like number lies above the legend row
  /\ \A i \in Idx(ev.doc) : \A j \in 1..Len(ev.doc.elems[i].n) :
        ev.doc.elems[i].role[j] = 1 => ev.doc.elems[i].n[j] <= (la - 1) * CH * MILLI
  \* the rules, in order, at the end of the style text
  /\ ev.doc.nstyle = 1
  \* (today: one after the other at the very end; in general: each rule's text, in the order of the entries)
  /\ (ents # <<>> => \/ EndsWith(FlatRows(ev.doc.style), Join([i \in 1..Len(ents) |-> RuleText(ents[i])], <<10>>))
                     \/ InOrderIn(FlatRows(ev.doc.style), [i \in 1..Len(ents) |-> RuleText(ents[i])]))

\* ev.tags = << [r, c (0-based cell of the '{'), names |-> << name, ... >>, inside |-> 0/1] >>
TagText(tg) == <<123>> \o Join(tg.names, <<44>>) \o <<125>>
ShapeBox(e) == IF IsRect(e) THEN <<e.n[1], e.n[2], e.n[1] + e.n[3], e.n[2] + e.n[4]>>
               ELSE <<e.n[1] - e.n[3], e.n[2] - e.n[3], e.n[1] + e.n[3], e.n[2] + e.n[3]>>
TagBox(tg) == << tg.c * CW * MILLI, tg.r * CH * MILLI, (tg.c + Len(TagText(tg))) * CW * MILLI, (tg.r + 1) * CH * MILLI >>
BoxIn(b, B) == B[1] <= b[1] /\ B[2] <= b[2] /\ b[3] <= B[3] /\ b[4] <= B[4]
BoxArea(B) == ((B[3] - B[1]) \div MILLI) * ((B[4] - B[2]) \div MILLI)
Shapes(doc) == { i \in Idx(doc) : (IsRect(doc.elems[i]) /\ ~HasCls(doc.elems[i], "filled")) \/ IsCircle(doc.elems[i]) }
ClsNames(e) == { e.cls[i] : i \in 1..Len(e.cls) }
XS(e) == { e.n[j] : j \in { q \in 1..Len(e.n) : e.role[q] = 0 } }
YS(e) == { e.n[j] : j \in { q \in 1..Len(e.n) : e.role[q] = 1 } }
ElemBBox(e) == IF IsRect(e) \/ IsCircle(e) THEN ShapeBox(e)
               ELSE IF XS(e) = {} \/ YS(e) = {} THEN <<0, 0, -1, -1>>
               ELSE <<SetMin(XS(e)), SetMin(YS(e)), SetMax(XS(e)), SetMax(YS(e))>>
BuiltinCls == {"solid", "broken", "nofill", "filled", "bg_filled", "backdrop"} \cup MarkerClasses
TagOK(ev, tg) ==
  LET doc == ev.doc
      enclosing == { i \in Shapes(doc) : BoxIn(TagBox(tg), ShapeBox(doc.elems[i])) }
      anchor == << (tg.c * CW + 2) * MILLI, (tg.r * CH + 12) * MILLI >>
      shownAsText == \E i \in OfKind(doc, "text") : <<doc.elems[i].n[1], doc.elems[i].n[2]>> = anchor /\ doc.elems[i].s = TagText(tg) IN
  /\ tg.r + 1 \in 1..Len(ev.rows)
  /\ LET cr == CellRow(ev.rows[tg.r + 1]) IN                                              \* the input has the tag there
     tg.c + Len(TagText(tg)) <= Len(cr) /\ SubSeq(cr, tg.c + 1, tg.c + Len(TagText(tg))) = TagText(tg)
  /\ \A i \in 1..Len(tg.names) : IsIdent(tg.names[i])
  /\ IF tg.inside = 1
     THEN /\ enclosing # {}
          /\ LET inner == CHOOSE i \in enclosing : \A j \in enclosing : BoxArea(ShapeBox(doc.elems[i])) <= BoxArea(ShapeBox(doc.elems[j])) IN
             /\ \A m \in 1..Len(tg.names) : \E q \in 1..Len(doc.elems[inner].cls) : ev.clsmap[doc.elems[inner].cls[q]] = tg.names[m]
          /\ ~shownAsText
     ELSE /\ \A i \in Idx(doc) : ~IsText(doc.elems[i]) => ~BoxIn(TagBox(tg), ElemBBox(doc.elems[i]))    \* the statement's domain
          /\ shownAsText
C16tags_OK(ev) ==
  /\ ev.doc.wf = 1
  /\ \A i \in 1..Len(ev.tags) : TagOK(ev, ev.tags[i])
  \* no tag name leaks onto a shape that does not enclose its tag
  /\ \A i \in Idx(ev.doc) : \A q \in 1..Len(ev.doc.elems[i].cls) :
        ev.doc.elems[i].cls[q] \notin BuiltinCls =>
          /\ i \in Shapes(ev.doc)
          /\ \E t \in 1..Len(ev.tags) : /\ ev.tags[t].inside = 1 /\ ev.clsmap[ev.doc.elems[i].cls[q]] \in RangeOf(ev.tags[t].names)
                                        /\ BoxIn(TagBox(ev.tags[t]), ShapeBox(ev.doc.elems[i]))
  \* other text is unaffected: every label cell that is not part of a tag is still covered by a text element
  \* (a quoted string in the picture is shown by its own text element, C15; the rest is read with the quoted regions blanked)
  /\ LET crs == DrawCells(ev)
         blanked == [r \in 1..Len(crs) |-> BlankQuoted(crs[r])]
         tagcells == UNION { { <<ev.tags[t].r + 1, ev.tags[t].c + j>> : j \in 1..Len(TagText(ev.tags[t])) } : t \in 1..Len(ev.tags) }
         T == OfKind(ev.doc, "text")
         P == { i \in T : ~IsQuotedText(crs, ev.doc.elems[i]) } IN
     /\ \A i \in P : TextMatches(blanked, ev.doc.elems[i])
     /\ (NonDrawingCells(blanked) \ tagcells) \subseteq UNION { TextCovered(ev.doc.elems[i]) : i \in P }
=============================================================================
