---------------------------- MODULE Relations ----------------------------
(* Relations between inputs and between recorded documents (DESIGN.md 3.2).  A relational   *)
(* event names the earlier event(s) it is related to; the trace specification first checks  *)
(* that the INPUTS really are so related (nothing is taken on trust from the driver) and     *)
(* then requires the corresponding relation between the DOCUMENTS.                          *)
EXTENDS Reference, CliRef, ServerRef

TOL == 8     \* 1/1000 of a cell width, in milli lattice units

------------------------------------------------------------------------
(* elements up to tolerance                                                                 *)
G01(e) == IF e.g > 0 THEN 1 ELSE 0
Norm(e) == [e EXCEPT !.g = G01(e)]
NormSeq(es) == [i \in 1..Len(es) |-> Norm(es[i])]
NearNums(a, b) == Len(a) = Len(b) /\ \A i \in 1..Len(a) : Abs(a[i] - b[i]) <= TOL
SetOfSeq(s) == { s[i] : i \in 1..Len(s) }
NearElem(a, b) == /\ a.k = b.k /\ SetOfSeq(a.cls) = SetOfSeq(b.cls) /\ a.s = b.s /\ a.fl = b.fl
                  /\ G01(a) = G01(b) /\ a.role = b.role /\ NearNums(a.n, b.n)
\* the two sequences are the same bag of elements up to TOL
SameBag(ea, eb) ==
  \/ BagOfSeq(NormSeq(ea)) = BagOfSeq(NormSeq(eb))
  \/ /\ Len(ea) = Len(eb)
     /\ \A i \in 1..Len(ea) :
          Cardinality({ j \in 1..Len(eb) : NearElem(ea[i], eb[j]) }) = Cardinality({ j \in 1..Len(ea) : NearElem(ea[i], ea[j]) })
     /\ \A i \in 1..Len(eb) :
          Cardinality({ j \in 1..Len(ea) : NearElem(eb[i], ea[j]) }) = Cardinality({ j \in 1..Len(eb) : NearElem(eb[i], eb[j]) })
Move(e, dx, dy) ==
  [e EXCEPT !.n = [i \in 1..Len(e.n) |-> IF e.role[i] = 0 THEN e.n[i] + dx
                                         ELSE IF e.role[i] = 1 THEN e.n[i] + dy ELSE e.n[i]]]
MoveAll(es, dx, dy) == [i \in 1..Len(es) |-> Move(es[i], dx, dy)]
Near(a, b) == Abs(a - b) <= TOL

------------------------------------------------------------------------
(* inputs                                                                                   *)
IsBlankCp(c) == c \in {32, 9}
RStrip(row) == LET idx == { i \in 1..Len(row) : ~IsBlankCp(row[i]) } IN
               IF idx = {} THEN <<>> ELSE SubSeq(row, 1, SetMax(idx))
Blank(row) == RStrip(row) = <<>>
Spaces(k) == [j \in 1..k |-> 32]
NonEmptyDrawing(rows) == \E r \in 1..Len(rows) : ~Blank(rows[r])
\* rows with trailing blank rows removed
TrimRows(rows) == LET idx == { r \in 1..Len(rows) : ~Blank(rows[r]) } IN
                  IF idx = {} THEN <<>> ELSE SubSeq(rows, 1, SetMax(idx))

\* b = n blank lines, then every line of a prefixed by k spaces (C06)
ShiftedInput(a, b, k, n) ==
  /\ k >= 0 /\ n >= 0
  /\ Len(b) = Len(a) + n
  /\ \A i \in 1..n : b[i] = <<>>
  /\ \A i \in 1..Len(a) : b[n + i] = Spaces(k) \o a[i]
ShiftedDoc(da, db, k, n) ==
  /\ da.wf = 1 /\ db.wf = 1
  /\ SameBag(MoveAll(da.elems, 8000 * k, 16000 * n), db.elems)
  /\ Near(db.w, da.w + 8000 * k) /\ Near(db.h, da.h + 16000 * n)

\* j = a and b side by side: every row of j is the row of a padded to column `at`, then the row of b (C10)
Pad(row, width) == row \o Spaces(width - Len(row))
RowOr(rows, i) == IF i \in 1..Len(rows) THEN rows[i] ELSE <<>>
WidthOf(rows) == IF rows = <<>> THEN 0 ELSE SetMax({ Len(RStrip(rows[r])) : r \in 1..Len(rows) })
\* (in display columns: rows are compared cell-expanded, a wide character taking two cells)
SideBySide(a, b, j, at) ==
  LET ca == CellRows(a) cb == CellRows(b) cj == CellRows(j) IN
  /\ at > WidthOf(ca)                         \* at least one blank column between them
  /\ Len(j) = Max2(Len(a), Len(b))
  /\ \A i \in 1..Len(j) : RStrip(cj[i]) = RStrip(Pad(RStrip(RowOr(ca, i)), at) \o RowOr(cb, i))
\* j = a, then `gap` >= 1 blank rows, then b
Stacked(a, b, j, gap) ==
  /\ gap >= 1
  /\ Len(j) = Len(a) + gap + Len(b)
  /\ \A i \in 1..Len(a) : j[i] = a[i]
  /\ \A i \in 1..gap : Blank(j[Len(a) + i])
  /\ \A i \in 1..Len(b) : j[Len(a) + gap + i] = b[i]
UnionDoc(da, db, dj, dx, dy) ==
  /\ da.wf = 1 /\ db.wf = 1 /\ dj.wf = 1
  /\ SameBag(da.elems \o MoveAll(db.elems, dx, dy), dj.elems)
  /\ Near(dj.w, Max2(da.w, db.w + dx)) /\ Near(dj.h, Max2(da.h, db.h + dy))

\* same input at two scales: documents are recorded in lattice units, so they must coincide (C11)
ScaledDoc(da, db) ==
  /\ da.wf = 1 /\ db.wf = 1
  /\ SameBag(da.elems, db.elems)
  /\ Near(da.w, db.w) /\ Near(da.h, db.h)

\* line-ending / trailing-blank variants (C17): same rows once CR, trailing blanks and trailing
\* blank rows are removed
StripCR(row) == IF Len(row) > 0 /\ row[Len(row)] = 13 THEN SubSeq(row, 1, Len(row) - 1) ELSE row
CanonRows(rows) == LET rs == [i \in 1..Len(rows) |-> RStrip(StripCR(rows[i]))] IN TrimRows(rs)
EolVariant(a, b) == CanonRows(a) = CanonRows(b)
SameDoc(da, db) ==
  /\ da.wf = 1 /\ db.wf = 1
  /\ SameBag(da.elems, db.elems)
  /\ da.w = db.w /\ da.h = db.h
  /\ da.style = db.style

\* b = a, then (after any blank rows) a '# Legend:' line and anything whatsoever (C16: from that line on the input is
\* never drawn).  a itself is legend-free.  Rows are compared as the drawing sees them (CR and trailing blanks removed).
HeaderCps == <<35, 32, 76, 101, 103, 101, 110, 100, 58>>
IsHeaderRow(row) == RStrip(StripCR(row)) = HeaderCps
HasHeaderText(row) == \E j \in 1..(Len(row) - 8) : SubSeq(row, j, j + 8) = HeaderCps
LegendAppended(a, b) ==
  /\ \A i \in 1..Len(a) : ~HasHeaderText(a[i])
  /\ \E L \in 1..Len(b) :
        /\ IsHeaderRow(b[L])
        /\ \A i \in 1..(L - 1) : ~HasHeaderText(b[i])
        /\ CanonRows(SubSeq(b, 1, L - 1)) = CanonRows(a)
\* ... and then the drawing is the drawing of a: same elements, same page
SameDrawing(da, db) ==
  /\ da.wf = 1 /\ db.wf = 1
  /\ SameBag(da.elems, db.elems)
  /\ da.w = db.w /\ da.h = db.h

------------------------------------------------------------------------
(* C18 — settings switches and entry points.  ev.rel.kind says which relation to the base     *)
(* event (the default conversion of the same input) is claimed.                              *)
SameBody(da, db) == da.elems = db.elems /\ da.rootcls = db.rootcls /\ da.ns = db.ns
SameFrame(da, db) == da.w = db.w /\ da.h = db.h /\ da.backdrop = db.backdrop
Flag01(b) == IF b THEN 1 ELSE 0
\* the style sheet reflects each cosmetic setting in its own rule (settings.rs documents what each one is for).
\* ev.rel.vals = [stroke, fill, back, font, size, width]: the values as code points, as they must appear
RuleHas(style, selector, decl) ==
  \E i \in 1..Len(style) : /\ style[i] = selector \o <<32, 123>>
     /\ \E j \in (i + 1)..Len(style) : /\ style[j] = <<32, 32>> \o decl \o <<59>>
                                         /\ \A q \in (i + 1)..j : style[q] # <<125>>
Str2(s) == s     \* selectors below are written as code points
SelLines == <<46,115,118,103,98,111,98,32,108,105,110,101,44,32,46,115,118,103,98,111,98,32,112,97,116,104,44,32,46,115,118,103,98,111,98,32,99,105,114,99,108,101,44,32,46,115,118,103,98,111,98,32,114,101,99,116,44,32,46,115,118,103,98,111,98,32,112,111,108,121,103,111,110>>
SelText == <<46,115,118,103,98,111,98,32,116,101,120,116>>                               \* .svgbob text
SelBackdrop == <<46,115,118,103,98,111,98,32,114,101,99,116,46,98,97,99,107,100,114,111,112>>   \* .svgbob rect.backdrop
SelFilled == <<46,115,118,103,98,111,98,32,46,102,105,108,108,101,100>>                 \* .svgbob .filled
SelBgFilled == <<46,115,118,103,98,111,98,32,46,98,103,95,102,105,108,108,101,100>>     \* .svgbob .bg_filled
SelNofill == <<46,115,118,103,98,111,98,32,46,110,111,102,105,108,108>>                 \* .svgbob .nofill
PStroke == <<115,116,114,111,107,101,58,32>>                 \* "stroke: "
PStrokeWidth == <<115,116,114,111,107,101,45,119,105,100,116,104,58,32>>
PFill == <<102,105,108,108,58,32>>
PFontFamily == <<102,111,110,116,45,102,97,109,105,108,121,58,32>>
PFontSize == <<102,111,110,116,45,115,105,122,101,58,32>>
\* the same question put to the sheet cut into rules (doc.css: <<selector, << <<property, value>> >> >>), for a sheet that is
\* laid out differently: some rule with this selector declares this property with this value
DropLast2(seq) == SubSeq(seq, 1, Len(seq) - 2)                  \* "stroke: " -> "stroke"
CssHas(css, selector, prop, value) ==
  \E i \in 1..Len(css) : /\ css[i][1] = selector
     /\ \E j \in 1..Len(css[i][2]) : css[i][2][j][1] = DropLast2(prop) /\ css[i][2][j][2] = value
StyleReflectsCss(css, v) ==
  /\ CssHas(css, SelLines, PStroke, v.stroke) /\ CssHas(css, SelLines, PStrokeWidth, v.width)
  /\ CssHas(css, SelText, PFill, v.stroke) /\ CssHas(css, SelText, PFontFamily, v.font)
  /\ CssHas(css, SelText, PFontSize, v.size \o <<112, 120>>)
  /\ CssHas(css, SelBackdrop, PFill, v.back) /\ CssHas(css, SelBgFilled, PFill, v.back) /\ CssHas(css, SelNofill, PFill, v.back)
  /\ CssHas(css, SelFilled, PFill, v.fill)
StyleReflects(style, v) ==
  /\ RuleHas(style, SelLines, PStroke \o v.stroke) /\ RuleHas(style, SelLines, PStrokeWidth \o v.width)
  /\ RuleHas(style, SelText, PFill \o v.stroke) /\ RuleHas(style, SelText, PFontFamily \o v.font)
  /\ RuleHas(style, SelText, PFontSize \o v.size \o <<112, 120>>)
  /\ RuleHas(style, SelBackdrop, PFill \o v.back) /\ RuleHas(style, SelBgFilled, PFill \o v.back) /\ RuleHas(style, SelNofill, PFill \o v.back)
  /\ RuleHas(style, SelFilled, PFill \o v.fill)

SettingsVariant(a, ev) ==
  LET da == a.doc db == ev.doc k == ev.rel.kind IN
  /\ da.wf = 1 /\ db.wf = 1 /\ a.rows = ev.rows
  /\ CASE k = "same" ->          \* another entry point, default settings: byte-identical
            ev.sha = a.sha
       [] k = "compressed" ->     \* same document without inter-element whitespace
            /\ SameBody(da, db) /\ SameFrame(da, db) /\ da.style = db.style /\ da.order = db.order
            /\ da.nstyle = db.nstyle /\ da.ndefs = db.ndefs /\ da.nbackdrop = db.nbackdrop /\ db.ws_between = 0
       [] k = "toggle" ->         \* the three switches add / remove exactly their own element
            /\ SameBody(da, db) /\ da.w = db.w /\ da.h = db.h
            /\ db.nstyle = ev.rel.styles /\ db.ndefs = ev.rel.defs /\ db.nbackdrop = ev.rel.backdrop
            /\ (ev.rel.styles = 1 => db.style = da.style) /\ (ev.rel.styles = 0 => db.style = << <<>> >> \/ db.style = <<>>)
            /\ (ev.rel.backdrop = 1 => db.backdrop = da.backdrop)
            /\ db.order = SelectSeq(da.order, LAMBDA nm : (nm = "style" => ev.rel.styles = 1) /\ (nm = "defs" => ev.rel.defs = 1)
                                                      /\ (nm = "rect#backdrop" => ev.rel.backdrop = 1))
       [] k = "cosmetic" ->       \* colours, font, stroke: only the style sheet changes
            /\ SameBody(da, db) /\ SameFrame(da, db) /\ da.order = db.order
            /\ da.nstyle = db.nstyle /\ da.ndefs = db.ndefs /\ da.nbackdrop = db.nbackdrop
            \* (as the sheet is laid out today, line by line; or, laid out in any other way, rule by rule)
            /\ \/ (Len(db.style) = Len(da.style) /\ StyleReflects(db.style, ev.rel.vals))
               \/ ("css" \in DOMAIN db /\ Len(db.css) = Len(da.css) /\ StyleReflectsCss(db.css, ev.rel.vals))
       [] k = "override" ->       \* an overridden size changes only root and backdrop dimensions
            /\ SameBody(da, db) /\ da.style = db.style /\ da.order = db.order
            /\ db.w = ev.rel.w /\ db.h = ev.rel.h /\ db.backdrop = <<0, 0, ev.rel.w, ev.rel.h>>
       [] OTHER -> FALSE
=============================================================================
