---------------------------- MODULE CliRef ----------------------------
(* What the command line tool must do, as functions of a scenario (C19).                      *)
(* scenario = [opts |-> set of option names, inmode |-> "file" | "stdin" | "inline",            *)
(*             fault |-> set of faults among "missing_file", "bad_utf8", "bad_number", "unwritable"] *)
EXTENDS Integers, Sequences, FiniteSets
ValueOpts == {"background", "fill-color", "font-family", "font-size", "stroke-width", "stroke-color", "scale"}
NumericOpts == {"font-size", "stroke-width", "scale"}
AllOpts == ValueOpts \cup {"o", "s"}
WellFormedScenario(sc) ==
  /\ sc.opts \subseteq AllOpts
  /\ (sc.inmode = "inline") <=> ("s" \in sc.opts)
  /\ ("missing_file" \in sc.fault => sc.inmode = "file")
  /\ ("bad_utf8" \in sc.fault => sc.inmode \in {"file", "stdin"} /\ "missing_file" \notin sc.fault)   \* the input is not text
  /\ ("bad_number" \in sc.fault => sc.opts \cap NumericOpts # {})
  /\ ("unwritable" \in sc.fault => "o" \in sc.opts)
\* the input is read first, then the numbers are parsed, then the conversion is written
\* (which non-zero status a failure gets is the tool's own choice - today 1, 101 for input that is not text, 2 for an
\* output that cannot be written; the statement only distinguishes zero from non-zero, and so does CliOK)
ExpectedExit(sc) == IF "missing_file" \in sc.fault THEN 1
                    ELSE IF "bad_utf8" \in sc.fault THEN 101
                    ELSE IF "bad_number" \in sc.fault THEN 1
                    ELSE IF "unwritable" \in sc.fault THEN 2 ELSE 0
ExpectedChannel(sc) == IF "o" \in sc.opts THEN "file" ELSE "stdout"
\* how each option maps to the library's settings
SettingsField(opt) == CASE opt = "background" -> "background" [] opt = "fill-color" -> "fill_color"
                        [] opt = "font-family" -> "font_family" [] opt = "font-size" -> "font_size"
                        [] opt = "stroke-width" -> "stroke_width" [] opt = "stroke-color" -> "stroke_color"
                        [] opt = "scale" -> "scale"
SettingsOp(opt) == IF opt = "scale" THEN "multiply_default_8" ELSE "replace"

\* the observation of one run satisfies the scenario
CliOK(sc, ob) ==
  /\ WellFormedScenario(sc)
  /\ (ob.exit = 0) <=> (ExpectedExit(sc) = 0)             \* zero exactly when the requested conversion succeeded
  /\ IF ExpectedExit(sc) = 0
     THEN IF ExpectedChannel(sc) = "stdout"
          THEN ob.stdout_sha = ob.lib_nl_sha /\ ob.file_exists = 0           \* the document plus a newline
          ELSE ob.file_exists = 1 /\ ob.file_sha = ob.lib_sha /\ ob.stdout_len = 0   \* verbatim
     ELSE /\ ob.stderr_len > 0            \* a diagnostic
          /\ ob.stdout_len = 0                                   \* no partial output:
          /\ ob.file_sha = ob.pre_sha                            \* the output file is absent, or still what it was before
          /\ (ob.file_exists = 1 <=> ob.pre_sha # "")
\* batch mode: one document per matching file whose output can be written; a file that cannot be written is reported
\* and makes the status non-zero, the others are still converted (b.n_blocked = matching files whose output path is taken)
BuildOK(b, ob) ==
  /\ (ob.exit # 0) <=> (b.missing_dir = 1 \/ b.n_blocked > 0)        \* (which non-zero status: the tool's own choice)
  /\ (b.missing_dir = 0 => /\ ob.n_written = b.n_matching - b.n_blocked
                           /\ ob.n_correct = b.n_matching - b.n_blocked       \* each equals the library's default conversion
                           /\ ob.n_extra = 0)
  /\ (b.missing_dir = 1 => ob.n_written = 0)
  /\ (ob.exit # 0 => ob.diag_len > 0)
=============================================================================
