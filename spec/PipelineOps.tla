---------------------------- MODULE PipelineOps ----------------------------
(* The stage operators of the conversion pipeline (pure, no variables): used by the          *)
(* transition system Pipeline.tla and by the trace specification PipelineTrace.tla.           *)
(* They mirror the code's iteration orders: cells in (row, column) order, the greedy merge    *)
(* that scans existing groups in reverse and joins the last one that accepts, fragments       *)
(* sorted per cell by svgbob's own comparison, rect endorsement through the greedy parallel   *)
(* pairing, re-fragmentation of rejected spans in isolation.  Deliberate deviation: exact     *)
(* integer geometry where the code uses f32.                                                 *)
EXTENDS Glyphs, CatalogueTables, SequencesExt, TLC

------------------------------------------------------------------------
(* generic greedy merge (merge.rs)                                                         *)
Absorb(lst, it, Can(_, _), Mrg(_, _)) ==
   LET idx == {i \in 1..Len(lst) : Can(lst[i], it)} IN
   IF idx = {} THEN Append(lst, it)
   ELSE LET i == SetMax(idx) IN [lst EXCEPT ![i] = Mrg(lst[i], it)]
SecondPass(items, Can(_, _), Mrg(_, _)) ==
   FoldLeft(LAMBDA lst, it : Absorb(lst, it, Can, Mrg), <<>>, items)
MergeRec(items0, Can(_, _), Mrg(_, _)) ==
   LET RECURSIVE R(_)
       R(items) == LET m == SecondPass(items, Can, Mrg) IN
                   IF Len(m) < Len(items) THEN R(m) ELSE m
   IN R(items0)
\* (Lt is a strict total order on S0 wherever this is used; SetToSortSeq is evaluated by a Java override, the
\* obvious recursive definition overflows TLC's stack beyond some 150 elements)
SortSet(S0, Lt(_, _)) == SetToSortSeq(S0, Lt)
\* stable insertion sort
StableSort(s0, Lt(_, _)) ==
   LET Ins(lst, x) ==
         LET pos == IF \E i \in 1..Len(lst) : Lt(x, lst[i])
                    THEN CHOOSE i \in 1..Len(lst) : Lt(x, lst[i]) /\ \A j \in 1..(i-1) : ~Lt(x, lst[j])
                    ELSE Len(lst) + 1
         IN SubSeq(lst, 1, pos - 1) \o <<x>> \o SubSeq(lst, pos, Len(lst))
   IN FoldLeft(Ins, <<>>, s0)

------------------------------------------------------------------------
(* stage 4: cells; stage 5: spans                                                          *)
IsBlank(ch) == ch \in {32, 9, 0}
CellSeq(rws) ==
  LET
      T == { t \in UNION { { <<c - 1, r - 1, rws[r][c]>> : c \in 1..Len(rws[r]) } : r \in 1..Len(rws) } : ~IsBlank(t[3]) }
  IN SortSet(T, LAMBDA p, q : PLt(<<p[1], p[2]>>, <<q[1], q[2]>>))
Adjacent(p, q) == (p[1] - q[1]) \in -1..1 /\ (p[2] - q[2]) \in -1..1
SpanCan(s, t) == \E p \in RangeOf(s), q \in RangeOf(t) : Adjacent(p, q)
SpanMrg(s, t) == s \o t
SpansOf(cs) == MergeRec([i \in 1..Len(cs) |-> << <<cs[i][1], cs[i][2]>> >>], SpanCan, SpanMrg)

ChAt(cs, x, y) == IF \E i \in 1..Len(cs) : cs[i][1] = x /\ cs[i][2] = y
                  THEN cs[CHOOSE i \in 1..Len(cs) : cs[i][1] = x /\ cs[i][2] = y][3] ELSE cSP

------------------------------------------------------------------------
(* stage 6: catalogue lookup (span.rs endorse_to_arcs_and_circles, circle_map.rs endorse_*_span): the  *)
(* span, moved to the origin, is searched for a catalogue drawing it CONTAINS (every cell of the        *)
(* drawing with its character); tables are scanned from their last entry (largest first), circles       *)
(* before three-quarter arcs before half arcs before quarter arcs.  The matched cells leave the span.   *)
SpanTL(sp) == << SetMin({ c[1] : c \in RangeOf(sp) }), SetMin({ c[2] : c \in RangeOf(sp) }) >>
Localized(cs, sp) == LET tl == SpanTL(sp) IN { <<c[1] - tl[1], c[2] - tl[2], ChAt(cs, c[1], c[2])>> : c \in RangeOf(sp) }
LastMatch(T, L) == LET idx == { i \in 1..Len(T) : T[i].span \subseteq L } IN IF idx = {} THEN 0 ELSE SetMax(idx)
MoveFrag(f, tl) == LET dx == CW * tl[1] dy == CH * tl[2] IN
  IF f.k = "C" THEN [k |-> "C", c |-> <<f.c[1] + dx, f.c[2] + dy>>, r |-> f.r, f |-> FALSE]
  ELSE [f EXCEPT !.s = <<f.s[1] + dx, f.s[2] + dy>>, !.e = <<f.e[1] + dx, f.e[2] + dy>>]
CatPick(T, cs, sp) ==       \* <<accepted fragments, rest of the span>>
  LET L == Localized(cs, sp) tl == SpanTL(sp) i == LastMatch(T, L) IN
  << << MoveFrag(T[i].f, tl) >>,
     SelectSeq(sp, LAMBDA c : <<c[1] - tl[1], c[2] - tl[2], ChAt(cs, c[1], c[2])>> \notin T[i].span) >>
EndorseCat(cs, sp) ==
  IF sp = <<>> THEN << <<>>, sp >>
  ELSE LET L == Localized(cs, sp) IN
       IF LastMatch(CatCircles, L) > 0 THEN CatPick(CatCircles, cs, sp)
       ELSE IF LastMatch(CatThreeQuarters, L) > 0 THEN CatPick(CatThreeQuarters, cs, sp)
       ELSE IF LastMatch(CatHalf, L) > 0 THEN CatPick(CatHalf, cs, sp)
       ELSE IF LastMatch(CatQuarter, L) > 0 THEN CatPick(CatQuarter, cs, sp)
       ELSE << <<>>, sp >>

------------------------------------------------------------------------
(* stage 7: fragments of a cell, given the characters of its own span only                 *)
ChIn(cs, sp, x, y) == IF <<x, y>> \in RangeOf(sp) THEN ChAt(cs, x, y) ELSE cSP
Neigh(cs, sp, cl) ==
  [tl |-> ChIn(cs, sp, cl[1]-1, cl[2]-1), t |-> ChIn(cs, sp, cl[1], cl[2]-1), tr |-> ChIn(cs, sp, cl[1]+1, cl[2]-1),
   l  |-> ChIn(cs, sp, cl[1]-1, cl[2]),                                        r  |-> ChIn(cs, sp, cl[1]+1, cl[2]),
   bl |-> ChIn(cs, sp, cl[1]-1, cl[2]+1), b |-> ChIn(cs, sp, cl[1], cl[2]+1), br |-> ChIn(cs, sp, cl[1]+1, cl[2]+1)]
PXs(fr) == { fr.pts[i][1] : i \in 1..Len(fr.pts) }
PYs(fr) == { fr.pts[i][2] : i \in 1..Len(fr.pts) }
Mins(fr) == IF fr.k = "P" THEN <<SetMin(PXs(fr)), SetMin(PYs(fr))>>
            ELSE IF fr.k = "C" THEN <<fr.c[1] - fr.r, fr.c[2] - fr.r>>
            ELSE <<Min2(fr.s[1], fr.e[1]), Min2(fr.s[2], fr.e[2])>>
Maxs(fr) == IF fr.k = "P" THEN <<SetMax(PXs(fr)), SetMax(PYs(fr))>>
            ELSE IF fr.k = "C" THEN <<fr.c[1] + fr.r, fr.c[2] + fr.r>>
            ELSE <<Max2(fr.s[1], fr.e[1]), Max2(fr.s[2], fr.e[2])>>
Rank(fr) == IF fr.k = "L" THEN 10 ELSE IF fr.k = "M" THEN 20 ELSE IF fr.k = "C" THEN 30 ELSE IF fr.k = "A" THEN 40
            ELSE IF fr.k = "P" THEN 50 ELSE 60
BLt(x, z) == x = FALSE /\ z = TRUE
FragLt(x, z) ==
  IF x.k = "L" /\ z.k = "L"
    THEN PLt(x.s, z.s) \/ (x.s = z.s /\ (PLt(x.e, z.e) \/ (x.e = z.e /\ BLt(x.b, z.b))))
  ELSE IF x.k = "A" /\ z.k = "A"
    THEN PLt(x.s, z.s) \/ (x.s = z.s /\ (PLt(x.e, z.e) \/ (x.e = z.e /\ (x.r < z.r \/ (x.r = z.r /\ (BLt(x.mj, z.mj) \/ (x.mj = z.mj /\ BLt(x.sw, z.sw))))))))
  ELSE IF x.k = "R" /\ z.k = "R"
    THEN PLt(x.s, z.s) \/ (x.s = z.s /\ (PLt(x.e, z.e) \/ (x.e = z.e /\ BLt(x.f, z.f))))
  ELSE IF x.k = "C" /\ z.k = "C"
    THEN PLt(Mins(x), Mins(z)) \/ (Mins(x) = Mins(z) /\ (PLt(Maxs(x), Maxs(z)) \/ (Maxs(x) = Maxs(z) /\ (x.r < z.r \/ (x.r = z.r /\ BLt(x.f, z.f))))))
  ELSE IF x.k = "P" /\ z.k = "P"
    THEN x.pts # z.pts /\ (PLt(x.pts[1], z.pts[1]) \/ (x.pts[1] = z.pts[1] /\ (PLt(x.pts[Len(x.pts)], z.pts[Len(z.pts)])
                              \/ (x.pts[Len(x.pts)] = z.pts[Len(z.pts)] /\ Len(x.pts) < Len(z.pts)))))
  ELSE PLt(Mins(x), Mins(z)) \/ (Mins(x) = Mins(z) /\ (PLt(Maxs(x), Maxs(z)) \/ (Maxs(x) = Maxs(z) /\ Rank(x) < Rank(z))))
Shift(fr, cl) == LET mv(p) == <<p[1] + CW * cl[1], p[2] + CH * cl[2]>> IN
                 IF fr.k = "P" THEN [fr EXCEPT !.pts = [i \in 1..Len(fr.pts) |-> mv(fr.pts[i])]]
                 ELSE IF fr.k = "C" THEN [fr EXCEPT !.c = mv(fr.c)]
                 ELSE [fr EXCEPT !.s = mv(fr.s), !.e = mv(fr.e)]
CellFrags(cs, sp, cl) ==
  LET ch == ChAt(cs, cl[1], cl[2])
      rs == Rules(ch, Neigh(cs, sp, cl))
      fired == FoldLeft(LAMBDA lst, ru : IF ru[1] THEN lst \o ru[2] ELSE lst, <<>>, rs)
  IN IF fired = <<>> THEN << [k |-> "T", cell |-> cl, s |-> <<ch>>, cells |-> <<cl>>] >>
     ELSE LET sorted == StableSort(fired, FragLt) IN
          [i \in 1..Len(sorted) |-> Shift(sorted[i], cl) @@ [cells |-> <<cl>>]]
\* FragmentBuffer is a BTreeMap: cells come out in (y, x) order whatever order they went in
SpanFrags(cs, sp) == FoldLeft(LAMBDA lst, cl : lst \o CellFrags(cs, sp, cl), <<>>, SortSet(RangeOf(sp), PLt))

------------------------------------------------------------------------
(* stage 8: merge fragments                                                                *)
\* a text occupies as many cells as the display widths of its characters add up to
TextWidth(s) == FoldLeft(LAMBDA n, c : n + (IF WideCp(c) THEN 2 ELSE 1), 0, s)
Touching(l1, l2) == OnSeg(l2.s, l1.s, l1.e) \/ OnSeg(l2.e, l1.s, l1.e) \/ OnSeg(l1.s, l2.s, l2.e) \/ OnSeg(l1.e, l2.s, l2.e)
\* Line::merge_circle: a bullet whose centre is close to an end of the line (within 3/4 of the cell extent in
\* the line's direction: squared distances in lattice units) becomes a marker at that end; the line then runs
\* from its far end to the bullet's centre
D2(p, q) == (p[1] - q[1]) * (p[1] - q[1]) + (p[2] - q[2]) * (p[2] - q[2])
Reach2(ln) == IF ln.s[2] = ln.e[2] THEN 36 ELSE IF ln.s[1] = ln.e[1] THEN 144 ELSE 180
CloseEnd(ln, ci) == D2(ln.e, ci.c) <= Reach2(ln)
CloseStart(ln, ci) == D2(ln.s, ci.c) <= Reach2(ln)
CanMergeCircle(ln, ci) == ci.r <= 6 /\ (CloseStart(ln, ci) \/ CloseEnd(ln, ci))
MergeCircle(ln, ci, cells) ==
  [k |-> "M", s |-> IF CloseEnd(ln, ci) THEN ln.s ELSE ln.e, e |-> ci.c, b |-> ln.b,
   em |-> IF ci.f THEN "circle" ELSE IF ci.r >= 4 THEN "big_open_circle" ELSE "open_circle", cells |-> cells]
FragCan(x, z) ==
  IF x.k = "L" /\ z.k = "C" THEN CanMergeCircle(x, z)
  ELSE IF x.k = "C" /\ z.k = "L" THEN CanMergeCircle(z, x)
  ELSE IF x.k = "L" /\ z.k = "L" THEN Touching(x, z) /\ Collinear(x.s, x.e, z.s) /\ Collinear(x.s, x.e, z.e)
  ELSE IF x.k = "T" /\ z.k = "T"
    THEN x.cell[2] = z.cell[2] /\ (x.cell[1] + TextWidth(x.s) = z.cell[1] \/ z.cell[1] + TextWidth(z.s) = x.cell[1])
  ELSE FALSE
FragMrg(x, z) ==
  IF x.k = "L" /\ z.k = "C" THEN MergeCircle(x, z, x.cells \o z.cells)
  ELSE IF x.k = "C" /\ z.k = "L" THEN MergeCircle(z, x, x.cells \o z.cells)
  ELSE IF x.k = "L" THEN [k |-> "L", s |-> PMin(x.s, z.s), e |-> PMax(x.e, z.e), b |-> (x.b \/ z.b), cells |-> x.cells \o z.cells]
  ELSE IF x.cell[1] < z.cell[1] THEN [k |-> "T", cell |-> x.cell, s |-> x.s \o z.s, cells |-> x.cells \o z.cells]
  ELSE [k |-> "T", cell |-> z.cell, s |-> z.s \o x.s, cells |-> x.cells \o z.cells]
Merged(cs, sp) == MergeRec(SpanFrags(cs, sp), FragCan, FragMrg)

------------------------------------------------------------------------
(* stage 9: contact groups; stage 10: rect endorsement                                     *)
TextCells(tx) == { <<tx.cell[1] + i, tx.cell[2]>> : i \in 0..(TextWidth(tx.s) - 1) }
EndTouch(x, z) == x.s = z.s \/ x.e = z.e \/ x.s = z.e \/ x.e = z.s
TouchCircle(ln, ci) == D2(ln.s, ci.c) < ci.r * ci.r \/ D2(ln.e, ci.c) < ci.r * ci.r
FragContact(x, z) ==
  IF x.k = "L" /\ z.k = "C" THEN TouchCircle(x, z)
  ELSE IF x.k = "C" /\ z.k = "L" THEN TouchCircle(z, x)
  ELSE IF x.k = "L" /\ z.k = "L" THEN Touching(x, z)
  ELSE IF x.k \in {"L", "A"} /\ z.k \in {"L", "A"} THEN EndTouch(x, z)
  ELSE IF x.k = "T" /\ z.k = "T" THEN \E c1 \in TextCells(x), c2 \in TextCells(z) : c1[2] = c2[2] /\ Adjacent(c1, c2)
  ELSE FALSE
GroupCan(G1, G2) == \E i \in 1..Len(G1), j \in 1..Len(G2) : FragContact(G1[i], G2[j])
GroupMrg(G1, G2) == G1 \o G2
ContactsOf(frs) == MergeRec([i \in 1..Len(frs) |-> <<frs[i]>>], GroupCan, GroupMrg)
Horiz(ln) == ln.s[2] = ln.e[2]
Vert(ln) == ln.s[1] = ln.e[1]
AabbPar(x, z) == x.k = "L" /\ z.k = "L" /\
   ((Horiz(x) /\ Horiz(z) /\ x.s[1] = z.s[1] /\ x.e[1] = z.e[1]) \/ (Vert(x) /\ Vert(z) /\ x.s[2] = z.s[2] /\ x.e[2] = z.e[2]))
ParPairs(GG) ==
  LET nn == Len(GG)
      step(lst, ij) == LET used == UNION {{prs[1], prs[2]} : prs \in RangeOf(lst)} IN
                       IF ij[1] # ij[2] /\ ij[1] \notin used /\ ij[2] \notin used /\ AabbPar(GG[ij[1]], GG[ij[2]])
                       THEN Append(lst, ij) ELSE lst
      pairs == [t \in 1..(nn * nn) |-> << ((t - 1) \div nn) + 1, ((t - 1) % nn) + 1 >>]
  IN FoldLeft(step, <<>>, pairs)
Perp(x, z) == (Horiz(x) /\ Vert(z)) \/ (Vert(x) /\ Horiz(z))
BoundsPts(GG) == UNION {{Mins(GG[i]), Maxs(GG[i])} : i \in 1..Len(GG)}
PtMin(S) == CHOOSE p \in S : \A q \in S : PLe(p, q)
PtMax(S) == CHOOSE p \in S : \A q \in S : PLe(q, p)
\* every endpoint is a corner of the common bounding box (endorse.rs is_closed_outline)
ClosedOutline(GG) ==
  LET pts == BoundsPts(GG) mn == PtMin(pts) mx == PtMax(pts) IN
  \A p \in pts : (p[1] = mn[1] \/ p[1] = mx[1]) /\ (p[2] = mn[2] \/ p[2] = mx[2])
IsRectGroup(GG) ==
  /\ Len(GG) = 4
  /\ LET prs == ParPairs(GG) IN
     /\ Len(prs) = 2
     /\ Touching(GG[prs[1][1]], GG[prs[2][1]]) /\ Perp(GG[prs[1][1]], GG[prs[2][1]])
     /\ Touching(GG[prs[1][2]], GG[prs[2][2]]) /\ Perp(GG[prs[1][2]], GG[prs[2][2]])
     /\ ClosedOutline(GG)
RightArc(x) == x.k = "A" /\ Abs(x.s[1] - x.e[1]) = x.r /\ Abs(x.s[2] - x.e[2]) = x.r
IsRoundedGroup(GG) ==
  /\ Len(GG) = 8
  /\ LET prs == ParPairs(GG) IN
     /\ Len(prs) = 2 /\ Cardinality({i \in 1..8 : RightArc(GG[i])}) = 4
     /\ Perp(GG[prs[1][1]], GG[prs[2][1]]) /\ Perp(GG[prs[1][2]], GG[prs[2][2]])
AnyBroken(GG) == \E i \in 1..Len(GG) : GG[i].k = "L" /\ GG[i].b
RectOf(GG) ==
  LET pts == BoundsPts(GG)
      rad == IF IsRectGroup(GG) THEN 0
             ELSE GG[CHOOSE i \in 1..8 : RightArc(GG[i]) /\ \A j \in 1..(i - 1) : ~RightArc(GG[j])].r
  IN [k |-> "R", s |-> PtMin(pts), e |-> PtMax(pts), r |-> rad, b |-> AnyBroken(GG), f |-> FALSE]
Endorsable(GG) == IsRectGroup(GG) \/ IsRoundedGroup(GG)

------------------------------------------------------------------------
(* stages 11-12: rejected groups go back to cells, are regrouped into spans and fragmented *)
(* again in isolation                                                                      *)
\* (a fragment remembers the cells whose characters produced it: FragmentSpan.span)
GroupCells(GG) == FoldLeft(LAMBDA lst, fr : lst \o fr.cells, <<>>, GG)
SpanResult(cs, sp) ==
  LET e1 == EndorseCat(cs, sp)
      groups == ContactsOf(Merged(cs, e1[2]))
      rects == SelectSeq(groups, Endorsable)
      rej == SelectSeq(groups, LAMBDA GG : ~Endorsable(GG))
      rspans == MergeRec([i \in 1..Len(rej) |-> GroupCells(rej[i])], SpanCan, SpanMrg)
      e2 == [i \in 1..Len(rspans) |-> EndorseCat(cs, rspans[i])]
      regroups == FoldLeft(LAMBDA lst, e : lst \o ContactsOf(Merged(cs, e[2])), <<>>, e2)
  IN [cat |-> e1[1] \o FoldLeft(LAMBDA lst, e : lst \o e[1], <<>>, e2),
      rects |-> [i \in 1..Len(rects) |-> RectOf(rects[i])],
      \* in the code's order: catalogue match of the span, endorsed rects, catalogue matches of the rejected spans
      endorsed |-> e1[1] \o [i \in 1..Len(rects) |-> RectOf(rects[i])] \o FoldLeft(LAMBDA lst, e : lst \o e[1], <<>>, e2),
      singles |-> FoldLeft(LAMBDA lst, GG : IF Len(GG) = 1 THEN Append(lst, GG[1]) ELSE lst, <<>>, regroups),
      groups |-> SelectSeq(regroups, LAMBDA GG : Len(GG) > 1)]

------------------------------------------------------------------------
(* stage 16: the abstract elements (lattice units), as tuples comparable with the          *)
(* projection of the real output: <<kind, numbers..., flags>>                              *)
B01(b) == IF b THEN 1 ELSE 0
Strip(fr) ==
  IF fr.k = "L" THEN <<"line", fr.s[1], fr.s[2], fr.e[1], fr.e[2], B01(fr.b), "">>
  ELSE IF fr.k = "M" THEN <<"line", fr.s[1], fr.s[2], fr.e[1], fr.e[2], B01(fr.b), "end_marked_" \o fr.em>>
  ELSE IF fr.k = "A" THEN <<"path", fr.s[1], fr.s[2], fr.r, B01(fr.sw), fr.e[1], fr.e[2], B01(fr.mj)>>
  ELSE IF fr.k = "C" THEN <<"circle", fr.c[1], fr.c[2], fr.r, B01(fr.f)>>
  ELSE IF fr.k = "P" THEN <<"polygon">> \o FoldLeft(LAMBDA lst, q : lst \o <<q[1], q[2]>>, <<>>, fr.pts)
  ELSE IF fr.k = "R" THEN <<"rect", fr.s[1], fr.s[2], fr.e[1] - fr.s[1], fr.e[2] - fr.s[2], fr.r, B01(fr.b), B01(fr.f)>>
  ELSE <<"text", fr.cell[1] * CW + 2, fr.cell[2] * CH + 12, fr.s>>
\* every element carries, as its last component, whether it is rendered inside a <g> (a contact group of
\* more than one fragment that was not endorsed) or as a free element
Flatten(results) ==
  LET free == FoldLeft(LAMBDA lst, rr : lst \o rr.endorsed, <<>>, results) \o FoldLeft(LAMBDA lst, rr : lst \o rr.singles, <<>>, results)
      grouped == FoldLeft(LAMBDA lst, rr : lst \o FoldLeft(LAMBDA a2, GG : a2 \o GG, <<>>, rr.groups), <<>>, results)
  IN [i \in 1..Len(free) |-> Append(Strip(free[i]), 0)] \o [i \in 1..Len(grouped) |-> Append(Strip(grouped[i]), 1)]
Output(rws) == LET cs == CellSeq(rws) sps == SpansOf(cs) IN
               Flatten([i \in 1..Len(sps) |-> SpanResult(cs, sps[i])])

=============================================================================
