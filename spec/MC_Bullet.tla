---------------------------- MODULE MC_Bullet ----------------------------
(* C14 on the model: the bullet family (star, o, O at the start, the end or the middle of a run of   *)
(* dashes, tildes, box-drawing strokes, or of bars, colons ...) goes through the pipeline operators - the bullet's circle is merged with the          *)
(* neighbouring line into a marker line - and the model's document must satisfy the BulletOracle. *)
EXTENDS Bridge, TLC, Json
CONSTANTS MaxLen, MaxK, HBodies, VBodies
VARIABLES b, done
Bodies(d) == CASE d = "h" -> HBodies [] d = "v" -> VBodies [] d = "b" -> {92, 9586} [] OTHER -> {47, 9585}
\* (a lone colon or exclamation mark is text by the rules: dashed vertical runs start at length 2)
Family == { f \in { [ch |-> c, pos |-> p, len |-> n, k |-> kk, n |-> nn, dir |-> d[1], body |-> d[2]] :
                      c \in {42, 111, 79}, p \in {"start", "end", "mid"}, n \in 1..MaxLen, kk \in 0..MaxK, nn \in 0..1,
                      d \in { dd \in {"h", "v", "b", "s"} \X (HBodies \cup VBodies \cup {92, 47, 9586, 9585}) : dd[2] \in Bodies(dd[1]) } } :
              ~(f.body \in {58, 33} /\ f.len < 2) }
Init == b \in Family /\ done = FALSE
Next == ~done /\ done' = TRUE /\ UNCHANGED b
Rows == BulletRows(b)
Out == Output(CellRows(Rows))
ModelC14b == C14bullet_OK([rows |-> Rows, doc |-> ModelDoc(Out), bullet |-> b])
Emit == done => PrintT(<<"REPLAY", ToJson([rows |-> Rows, out |-> Out, bullet |-> b])>>)
=============================================================================
