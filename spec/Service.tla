---------------------------- MODULE Service ----------------------------
(* The library as a service (DESIGN.md C07): threads of one process call the conversion; the  *)
(* conversion forces process-wide lazily initialised tables (once_cell::Lazy).  A table is     *)
(* "uninit", then "running" on exactly one thread (other threads that need it block), then     *)
(* "ready" for ever.  Initialisers force the tables they depend on (nested initialisation on    *)
(* the same thread).  The value of a table is a deterministic function of its dependencies,     *)
(* and the result of a call is a deterministic function of <<input, settings, entry>> and the   *)
(* (ready) tables - so it cannot depend on which thread initialised what, or in which order.    *)
EXTENDS Integers, Sequences, FiniteSets, TLC
CONSTANTS
  \* @type: Set(Str);
  Threads,
  \* @type: Set(Int);
  Inputs,
  \* @type: Int;
  MaxCalls

\* the dependency graph of the tables a conversion forces
Tables == {"ASCII_PROPERTIES", "UNICODE_FRAGMENTS", "UNICODE_PROPERTIES", "CIRCLE_ART_MAP", "CIRCLE_MAP", "CIRCLES_SPAN",
           "QUARTER_ARC_SPAN", "HALF_ARC_SPAN", "THREE_QUARTERS_ARC_SPAN",
           "FLATTENED_QUARTER_ARC_SPAN", "FLATTENED_HALF_ARC_SPAN", "FLATTENED_THREE_QUARTERS_ARC_SPAN"}
Deps(T) ==
  CASE T = "UNICODE_PROPERTIES" -> {"UNICODE_FRAGMENTS"}
    [] T = "CIRCLE_MAP" -> {"CIRCLE_ART_MAP"}
    [] T = "CIRCLES_SPAN" -> {"CIRCLE_MAP"}
    [] T \in {"QUARTER_ARC_SPAN", "HALF_ARC_SPAN", "THREE_QUARTERS_ARC_SPAN"} -> {"CIRCLE_MAP"}
    [] T = "FLATTENED_QUARTER_ARC_SPAN" -> {"QUARTER_ARC_SPAN"}
    [] T = "FLATTENED_HALF_ARC_SPAN" -> {"HALF_ARC_SPAN"}
    [] T = "FLATTENED_THREE_QUARTERS_ARC_SPAN" -> {"THREE_QUARTERS_ARC_SPAN"}
    [] OTHER -> {}
\* what a conversion itself forces
Roots == {"ASCII_PROPERTIES", "UNICODE_PROPERTIES", "UNICODE_FRAGMENTS", "CIRCLES_SPAN", "FLATTENED_QUARTER_ARC_SPAN",
          "FLATTENED_HALF_ARC_SPAN", "FLATTENED_THREE_QUARTERS_ARC_SPAN"}

VARIABLES
  \* @type: Str -> Str;
  tstate,   \* table -> "uninit" | "running" | "ready"
  \* @type: Str -> Str;
  owner,    \* table -> thread running its initialiser (or "none")
  \* @type: Str -> Seq(Str);
  stack,    \* thread -> sequence of tables whose initialiser the thread is inside (innermost last)
  \* @type: Str -> Str;
  pc,       \* thread -> "idle" | "call"
  \* @type: Str -> Int;
  arg,      \* thread -> input of the call in progress
  \* @type: Str -> Int;
  ncalls,   \* thread -> calls completed
  \* @type: Str -> Int;
  inits,    \* table -> number of times its initialiser was started
  \* @type: Set(<<Int, Int>>);
  results   \* set of <<input, result>> observed so far
vars == <<tstate, owner, stack, pc, arg, ncalls, inits, results>>

Init == /\ tstate = [T \in Tables |-> "uninit"] /\ owner = [T \in Tables |-> "none"]
        /\ stack = [t \in Threads |-> <<>>] /\ pc = [t \in Threads |-> "idle"] /\ arg = [t \in Threads |-> 0]
        /\ ncalls = [t \in Threads |-> 0] /\ inits = [T \in Tables |-> 0] /\ results = {}

\* the tables thread t needs next: the dependencies of the initialiser it is inside, or the roots of its call
Needs(t) == IF stack[t] # <<>> THEN Deps(stack[t][Len(stack[t])]) ELSE Roots

Call(t) == /\ pc[t] = "idle" /\ ncalls[t] < MaxCalls
           /\ \E i \in Inputs : arg' = [arg EXCEPT ![t] = i]
           /\ pc' = [pc EXCEPT ![t] = "call"]
           /\ UNCHANGED <<tstate, owner, stack, ncalls, inits, results>>
BeginInit(t, T) == /\ pc[t] = "call" /\ T \in Needs(t) /\ tstate[T] = "uninit"
                   /\ tstate' = [tstate EXCEPT ![T] = "running"] /\ owner' = [owner EXCEPT ![T] = t]
                   /\ stack' = [stack EXCEPT ![t] = Append(@, T)] /\ inits' = [inits EXCEPT ![T] = @ + 1]
                   /\ UNCHANGED <<pc, arg, ncalls, results>>
EndInit(t) == /\ stack[t] # <<>>
              /\ LET T == stack[t][Len(stack[t])] IN
                 /\ \A D \in Deps(T) : tstate[D] = "ready"
                 /\ tstate' = [tstate EXCEPT ![T] = "ready"] /\ owner' = [owner EXCEPT ![T] = "none"]
              /\ stack' = [stack EXCEPT ![t] = SubSeq(@, 1, Len(@) - 1)]
              /\ UNCHANGED <<pc, arg, ncalls, inits, results>>
\* the conversion proper: pure function of the input once every root table is ready
F(i) == i * 7 + 1
Return(t) == /\ pc[t] = "call" /\ stack[t] = <<>> /\ \A T \in Roots : tstate[T] = "ready"
             /\ results' = results \cup {<<arg[t], F(arg[t])>>}
             /\ pc' = [pc EXCEPT ![t] = "idle"] /\ ncalls' = [ncalls EXCEPT ![t] = @ + 1]
             /\ UNCHANGED <<tstate, owner, stack, arg, inits>>
Next == \E t \in Threads : Call(t) \/ EndInit(t) \/ Return(t) \/ \E T \in Tables : BeginInit(t, T)
Spec == Init /\ [][Next]_vars /\ WF_vars(Next)

\* invariants
OnceOnly == \A T \in Tables : inits[T] <= 1
DepOrder == \A T \in Tables : tstate[T] = "ready" => \A D \in Deps(T) : tstate[D] = "ready"
OneOwner == \A T \in Tables : (tstate[T] = "running") <=> (owner[T] # "none")
NoReentrancy == \A t \in Threads : \A i, j \in 1..Len(stack[t]) : i # j => stack[t][i] # stack[t][j]
Deterministic == \A r1, r2 \in results : r1[1] = r2[1] => r1[2] = r2[2]
AllDone == \A t \in Threads : ncalls[t] = MaxCalls /\ pc[t] = "idle"
NoDeadlock == AllDone \/ ENABLED Next
EveryCallReturns == <>AllDone
=============================================================================
