---------------------------- MODULE MC_Quote ----------------------------
(* Stage 3 (Unquote) on the model: for every row of at most L characters over Alphabet the    *)
(* code's blanking mechanism (prefix + spaces for the cells of the content + 2) equals the    *)
(* reference (every cell of a quoted region becomes a space), so no character outside a       *)
(* quoted region changes its display column.                                                 *)
EXTENDS Reference, TLC
CONSTANTS L, Alphabet
VARIABLES row, done
Init == (\E n \in 0..L : row \in [1..n -> Alphabet]) /\ done = FALSE
Next == ~done /\ done' = TRUE /\ UNCHANGED row
MechEqualsRef == LET cr == CellRow(row) IN MechBlank(cr) = BlankQuoted(cr)
KeepsColumns == LET cr == CellRow(row) b == BlankQuoted(cr) segs == QuoteSegs(cr) IN
  /\ Len(b) = Len(cr)
  /\ \A p \in 1..Len(cr) : ~InSeg(segs, p) => b[p] = cr[p]
  /\ \A i \in 1..Len(segs) : segs[i][1] < segs[i][2] /\ cr[segs[i][1]] = 34 /\ cr[segs[i][2]] = 34
  /\ \A i \in 1..(Len(segs) - 1) : segs[i][2] < segs[i + 1][1]
=============================================================================
