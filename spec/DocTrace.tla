---------------------------- MODULE DocTrace ----------------------------
(* Trace specification for recorded conversions.  Each line of the trace is one observation   *)
(* of the real code: the input as rows of code points, the call's settings, the abstract      *)
(* document, optionally a relation to an earlier event, and the list `props` of property      *)
(* predicates to evaluate on it.  Every predicate is evaluated on every event that names it;  *)
(* all failing (event, predicate) pairs are collected, so a known finding cannot hide a new    *)
(* violation behind it.  Acceptance: the whole trace is consumed (postcondition on diameter). *)
EXTENDS Relations, TLC, Json, IOUtils

VARIABLES l, bad, nt
vars == <<l, bad, nt>>

Rec == ndJsonDeserialize(IOEnv.TRACE)

Base(ev, i) == Rec[i - ev.rel.of]
Base2(ev, i) == Rec[i - ev.rel.of2]

C06_OK(ev, i) == LET a == Base(ev, i) IN
  /\ ShiftedInput(a.rows, ev.rows, ev.rel.k, ev.rel.n)
  /\ NonEmptyDrawing(a.rows)
  /\ ShiftedDoc(a.doc, ev.doc, ev.rel.k, ev.rel.n)
C10_OK(ev, i) == LET a == Base(ev, i) b == Base2(ev, i) IN
  IF ev.rel.mode = "side"
  THEN /\ SideBySide(a.rows, b.rows, ev.rows, ev.rel.at)
       /\ UnionDoc(a.doc, b.doc, ev.doc, 8000 * ev.rel.at, 0)
  ELSE /\ Stacked(a.rows, b.rows, ev.rows, ev.rel.gap)
       /\ UnionDoc(a.doc, b.doc, ev.doc, 0, 16000 * (Len(a.rows) + ev.rel.gap))
C11_OK(ev, i) == LET a == Base(ev, i) IN a.rows = ev.rows /\ ScaledDoc(a.doc, ev.doc)
\* the same through the entry point that takes the page size from the caller: the page is the caller's, every other length scales
C11ov_OK(ev, i) == LET a == Base(ev, i) IN a.rows = ev.rows /\ a.doc.wf = 1 /\ ev.doc.wf = 1 /\ SameBag(a.doc.elems, ev.doc.elems)
C15_OK(ev, i) == LET a == Base(ev, i) ca == DrawCells(a) cb == DrawCells(ev) IN
  /\ QuoteDomain(ca) /\ ~HasQuoted(cb)
  /\ Len(ca) = Len(cb)
  /\ \A r \in 1..Len(ca) : RStripCells(cb[r]) = RStripCells(BlankQuoted(ca[r]))
  /\ a.doc.wf = 1 /\ ev.doc.wf = 1
  /\ SameBag(a.doc.elems, ev.doc.elems \o QuotedElems(ca))
  /\ a.doc.w = ev.doc.w /\ a.doc.h = ev.doc.h           \* ... the page included: quoted text takes no room of its own
C17_OK(ev, i) == LET a == Base(ev, i) IN EolVariant(a.rows, ev.rows) /\ SameDoc(a.doc, ev.doc)
C16app_OK(ev, i) == LET a == Base(ev, i) IN LegendAppended(a.rows, ev.rows) /\ SameDrawing(a.doc, ev.doc)

(* Decorated oracle events.  An oracle predicate (C03, C04, C05box, C09run, C13, C14*, C16tags) speaks about a drawing *)
(* given as rows.  An event may present that drawing in another dress: with CRLF line ends, trailing blanks / blank  *)
(* lines (C17 says these are invisible) or with a legend below it (C16 says it is never drawn).  Such an event       *)
(* carries the drawing's own rows as `orows` and the dress in `dec`; the dress is CHECKED here, not believed, and    *)
(* the oracle is then evaluated on the drawing's rows against the document the real code gave for the dressed text.  *)
Dressed(ev) == "dec" \in DOMAIN ev
DressOK(ev) ==
  CASE ev.dec = "eol" -> EolVariant(ev.orows, ev.rows)
    [] ev.dec = "legend" -> LegendAppended(ev.orows, ev.rows)
    [] OTHER -> FALSE
Undress(ev) == [ev EXCEPT !.rows = ev.orows]

Holds0(ev, i, p) ==
  CASE p = "C03" -> C03_OK(ev)
    [] p = "C01" -> ev.out = "return" /\ ev.doc.wf = 1 /\ ev.work[5] = 0     \* only Return; no pass ever grew a list
    [] p = "C19" -> CliOK([opts |-> RangeOf(ev.sc.opts), inmode |-> ev.sc.inmode, fault |-> RangeOf(ev.sc.fault)], ev.ob)
    [] p = "C19build" -> BuildOK(ev.build, ev.ob)
    [] p = "C20" -> ExchangeOK(ev.ob)
    [] p = "C12" -> C12_OK(ev)
    [] p = "C12x" -> C12_ExQuoted(ev)
    [] p = "C09" -> C09_OK(ev)
    [] p = "C09run" -> C09run_OK(ev)
    [] p = "C04" -> C04_OK(ev)
    [] p = "C04q" -> C04q_OK(ev)
    [] p = "C13" -> C13_OK(ev)
    [] p = "C14arrow" -> C14arrow_OK(ev)
    [] p = "C14bullet" -> C14bullet_OK(ev)
    [] p = "C14corner" -> C14corner_OK(ev)
    [] p = "C14m" -> C14m_OK(ev)
    [] p = "C05s" -> C05s_OK(ev)
    [] p = "C05box" -> C05box_OK(ev)
    [] p = "C05multi" -> C05multi_OK(ev)
    [] p = "C06" -> C06_OK(ev, i)
    [] p = "C10" -> C10_OK(ev, i)
    [] p = "C11" -> C11_OK(ev, i)
    [] p = "C11ov" -> C11ov_OK(ev, i)
    [] p = "C17" -> C17_OK(ev, i)
    [] p = "C16app" -> C16app_OK(ev, i)
    [] p = "C15" -> C15_OK(ev, i)
    [] p = "C18" -> SettingsVariant(Base(ev, i), ev)
    [] p = "C16legend" -> C16legend_OK(ev)
    [] p = "C16tags" -> C16tags_OK(ev)
    [] p = "C02" -> C02_OK(ev)
    [] p = "C02wf" -> WellFormedDoc(ev.doc)          \* the first sentence of C02 alone, for inputs that carry no probe strings
    [] p = "C08voc" -> VocabularyOnly(ev.doc)        \* C08 without a marker to look for
    [] p = "C08v" -> C08v_OK(ev)
    [] p = "C08" -> C08_OK(ev)
    [] OTHER -> FALSE      \* an unknown predicate name is reported, never silently accepted
Holds(ev, i, p) == IF Dressed(ev) THEN DressOK(ev) /\ Holds0(Undress(ev), i, p) ELSE Holds0(ev, i, p)

NonTrivial(ev0, i, p) ==
  LET ev == IF Dressed(ev0) THEN Undress(ev0) ELSE ev0 IN
  CASE p = "C03" -> C03_NT(ev)
    [] p = "C01" -> ev.nchars > 0
    [] p \in {"C19", "C19build", "C20"} -> TRUE
    [] p = "C12" -> C12_NT(ev)
    [] p = "C09" -> C09_NT(ev)
    [] p = "C09run" -> TRUE
    [] p = "C15" -> HasQuoted(DrawCells(Base(ev, i)))
    [] p = "C02" -> C02_NT(ev)
    [] p \in {"C02wf", "C08voc"} -> Len(ev.doc.elems) > 0
    [] p = "C08v" -> C02_NT(ev)
    [] p = "C08" -> C08_NT(ev)
    [] p = "C04" -> C04_NT(ev)
    [] p = "C04q" -> HasQuoted(DrawCells(ev))
    [] p \in {"C13", "C14arrow", "C14bullet", "C14corner", "C18"} -> TRUE
    [] p = "C14m" -> C14m_NT(ev)
    [] p = "C16legend" -> Len(ev.legend.entries) > 0
    [] p = "C16tags" -> Len(ev.tags) > 0
    [] p = "C05s" -> C05s_NT(ev)
    [] p \in {"C05box", "C05multi"} -> TRUE
    [] p \in {"C06", "C10", "C11", "C11ov", "C17", "C16app"} -> Len(ev.doc.elems) > 0
    [] OTHER -> FALSE

Init == l = 1 /\ bad = {} /\ nt = 0
Next == /\ l <= Len(Rec)
        /\ l' = l + 1
        /\ LET ev == Rec[l] ps == RangeOf(ev.props) IN
           /\ bad' = bad \cup { <<l, p>> : p \in { q \in ps : ~Holds(ev, l, q) } }
           /\ nt' = nt + Cardinality({ q \in ps : NonTrivial(ev, l, q) })
Spec == Init /\ [][Next]_vars

Report == l = Len(Rec) + 1 => /\ \A b \in bad : PrintT(<<"BAD", b[1], b[2]>>)
                              /\ PrintT(<<"BADCOUNT", Cardinality(bad)>>)
                              /\ PrintT(<<"NONTRIVIAL", nt>>)
Accepted == TLCGet("stats").diameter = Len(Rec) + 1
=============================================================================
