---------------------------- MODULE DocTrace ----------------------------
(* Trace specification for recorded conversions.  Each line of the trace is one observation   *)
(* of the real code: the input as rows of code points, the call's settings, the abstract      *)
(* document, optionally a relation to an earlier event, and the list `props` of property      *)
(* predicates to evaluate on it.  Every predicate is evaluated on every event that names it;  *)
(* all failing (event, predicate) pairs are collected, so a known finding cannot hide a new    *)
(* violation behind it.  Acceptance: the whole trace is consumed (postcondition on diameter). *)
EXTENDS Reference, TLC, Json, IOUtils

VARIABLES l, bad, nt
vars == <<l, bad, nt>>

Rec == ndJsonDeserialize(IOEnv.TRACE)

Holds(ev, i, p) ==
  CASE p = "C03" -> C03_OK(ev)
    [] OTHER -> FALSE      \* an unknown predicate name is reported, never silently accepted

NonTrivial(ev, i, p) ==
  CASE p = "C03" -> C03_NT(ev)
    [] OTHER -> FALSE

Init == l = 1 /\ bad = {} /\ nt = 0
Next == /\ l <= Len(Rec)
        /\ l' = l + 1
        /\ LET ev == Rec[l] ps == RangeOf(ev.props) IN
           /\ bad' = bad \cup { <<l, p>> : p \in { q \in ps : ~Holds(ev, l, q) } }
           /\ nt' = nt + Cardinality({ q \in ps : NonTrivial(ev, l, q) })
Spec == Init /\ [][Next]_vars

Report == l = Len(Rec) + 1 => /\ PrintT(<<"BADSET", bad>>)
                              /\ PrintT(<<"NONTRIVIAL", nt>>)
Accepted == TLCGet("stats").diameter = Len(Rec) + 1
=============================================================================
