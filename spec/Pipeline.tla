---------------------------- MODULE Pipeline ----------------------------
(* The conversion pipeline of svgbob as a transition system, one action per stage            *)
(* (DESIGN.md section 1).  It mirrors the code's iteration orders: cells in (row, column)    *)
(* order, the greedy merge that scans existing groups in reverse and joins the last one that *)
(* accepts, fragments sorted per cell by svgbob's own comparison, rect endorsement through   *)
(* the greedy parallel pairing, re-fragmentation of rejected spans in isolation.             *)
(* Deliberate deviations: exact integer geometry where the code uses f32; the catalogue      *)
(* lookup (stage 6) is in Catalogue.tla and is the identity on spans over `Modelled`.        *)
EXTENDS PipelineOps

VARIABLES rows,    \* the input: sequence of rows, each a sequence of code points
          stage,   \* "input" -> "cells" -> "spans" -> "done"
          cells,   \* stage 4: sequence of <<x, y, ch>> in (y, x) order
          spans,   \* stage 5: sequence of spans, each a sequence of <<x, y>>
          k,       \* next span to endorse
          acc,     \* per-span results so far
          out      \* the abstract elements of the final document
vars == <<rows, stage, cells, spans, k, acc, out>>

------------------------------------------------------------------------
(* the transition system                                                                   *)
InitWith(Grids) == /\ rows \in Grids /\ stage = "input" /\ cells = <<>> /\ spans = <<>>
                   /\ k = 1 /\ acc = <<>> /\ out = <<>>
Cellify == /\ stage = "input" /\ stage' = "cells" /\ cells' = CellSeq(rows)
           /\ UNCHANGED <<rows, spans, k, acc, out>>
GroupSpans == /\ stage = "cells" /\ stage' = "spans" /\ spans' = SpansOf(cells)
              /\ UNCHANGED <<rows, cells, k, acc, out>>
EndorseSpan == /\ stage = "spans" /\ k <= Len(spans)
               /\ acc' = Append(acc, SpanResult(cells, spans[k])) /\ k' = k + 1
               /\ UNCHANGED <<rows, stage, cells, spans, out>>
Assemble == /\ stage = "spans" /\ k > Len(spans) /\ stage' = "done" /\ out' = Flatten(acc)
            /\ UNCHANGED <<rows, cells, spans, k, acc>>
Next == Cellify \/ GroupSpans \/ EndorseSpan \/ Assemble
Done == stage = "done"

------------------------------------------------------------------------
(* stage invariants                                                                        *)
SpansPartitionCells ==
  stage \in {"spans", "done"} =>
     /\ \A i, j \in 1..Len(spans) : i # j => RangeOf(spans[i]) \cap RangeOf(spans[j]) = {}
     /\ UNION { RangeOf(spans[i]) : i \in 1..Len(spans) } = { <<cells[i][1], cells[i][2]>> : i \in 1..Len(cells) }
     /\ \A i, j \in 1..Len(spans) : i # j => ~SpanCan(spans[i], spans[j])    \* fixpoint of the greedy merge
\* no two line fragments left that could still merge (stage 8 reached a fixpoint)
MergeFixpoint ==
  \A i \in 1..Len(acc) : \A G1 \in RangeOf(acc[i].groups) :
     \A a, b \in 1..Len(G1) : a # b => ~FragCan(G1[a], G1[b])
=============================================================================
