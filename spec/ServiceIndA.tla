---------------------------- MODULE ServiceIndA ----------------------------
(* Apalache set-up for the induction obligations of ServiceInd!IndInv (every number of calls:      *)
(* MaxCalls is left unconstrained; 2 threads, 2 inputs):                                             *)
(*   apalache-mc check --cinit=ConstInit --init=Init    --inv=IndInv --length=0 ServiceIndA.tla      *)
(*   apalache-mc check --cinit=ConstInit --init=IndInit --inv=IndInv --length=1 ServiceIndA.tla      *)
EXTENDS ServiceInd, Apalache
ConstInit == Threads = {"t1", "t2"} /\ Inputs = {1, 2} /\ MaxCalls \in Nat
IndInit ==
  /\ tstate = Gen(12) /\ owner = Gen(12) /\ stack = Gen(4) /\ pc = Gen(2) /\ arg = Gen(2)
  /\ ncalls = Gen(2) /\ inits = Gen(12) /\ results = Gen(3)
  /\ IndInv

\* the step obligation split by action (each one a separate, smaller query)
NextCall == \E t \in Threads : Call(t)
NextBegin == \E t \in Threads : \E T \in Tables : BeginInit(t, T)
NextEnd == \E t \in Threads : EndInit(t)
NextReturn == \E t \in Threads : Return(t)
=============================================================================
