---------------------------- MODULE ServerRef ----------------------------
(* What the HTTP server must answer, as a function of the request alone (C20).                 *)
EXTENDS Integers, Sequences, FiniteSets
ReqClasses == {"get", "post_ok", "post_badutf8", "post_oversize", "other_method", "other_path", "malformed"}
\* statuses the statement allows per class; 0 = connection closed without a response (only for
\* requests that are not HTTP at all)
AllowedStatus(class) ==
  CASE class = "get" -> {200} [] class = "post_ok" -> {200} [] class = "post_badutf8" -> {400}
    [] class = "post_oversize" -> {413} [] class = "other_method" -> {405} [] class = "other_path" -> {404}
    [] class = "malformed" -> {400, 0}
BodyKind(class) == CASE class = "get" -> "name_version" [] class = "post_ok" -> "conversion" [] OTHER -> "any"
\* one observed exchange: ob = [class, status, body_sha, want_sha]; want_sha is the SHA-256 of the
\* library's default conversion of the posted body (post_ok) or of "<package name> <version>" (get)
ExchangeOK(ob) ==
  /\ ob.class \in ReqClasses
  /\ ob.status \in AllowedStatus(ob.class)
  /\ (BodyKind(ob.class) # "any" => ob.body_sha = ob.want_sha)
=============================================================================
