---------------------------- MODULE PipelineTrace ----------------------------
(* Stage-level conformance (binding C): the library, built with the hooks, records one event  *)
(* per pipeline stage of a conversion; each event must be the result of the corresponding     *)
(* PipelineOps operator applied to the previously logged state.  A mismatch is recorded as     *)
(* <<event number, stage>> and the specification then continues from the LOGGED value, so that  *)
(* a divergence is localised to the stage where it first appears and the rest of the trace is   *)
(* still checked.  By the soundness rule (DESIGN.md section 2) a mismatch here is drift, not a   *)
(* property violation.  Stage invariants (a greedy pass never grows its list; spans partition    *)
(* the cells; no two fragments left that could merge) are evaluated on the logged values too.    *)
EXTENDS Stages, Json, IOUtils
VARIABLES l, bad, cs, merged, contacts, rejects, ninv,
          phase,      \* "endorse" (first pass over a span) or "regroup" (re-fragmentation of rejected spans)
          freeAcc,    \* free fragments accumulated over the spans of the conversion (stage 12)
          groupAcc    \* contact groups that will be rendered as <g>
vars == <<l, bad, cs, merged, contacts, rejects, ninv, phase, freeAcc, groupAcc>>
Rec == ndJsonDeserialize(IOEnv.TRACE)

\* logged fragments arrive as records [k, s, e, b | r, sw | cell, t, cells]; bring them to the model's shape
B(x) == x = 1
Pt(p) == <<p[1], p[2]>>
Cells2(cl) == [i \in 1..Len(cl) |-> Pt(cl[i])]
Frag(f) ==
  IF f.k = "L" THEN [k |-> "L", s |-> Pt(f.s), e |-> Pt(f.e), b |-> B(f.b), cells |-> Cells2(f.cells)]
  ELSE IF f.k = "A" THEN [k |-> "A", s |-> Pt(f.s), e |-> Pt(f.e), r |-> f.r, sw |-> B(f.sw), mj |-> B(f.mj), cells |-> Cells2(f.cells)]
  ELSE IF f.k = "C" THEN [k |-> "C", c |-> Pt(f.c), r |-> f.r, f |-> B(f.f), cells |-> Cells2(f.cells)]
  ELSE IF f.k = "M" THEN [k |-> "M", s |-> Pt(f.s), e |-> Pt(f.e), b |-> B(f.b), em |-> f.em, cells |-> Cells2(f.cells)]
  ELSE IF f.k = "P" THEN [k |-> "P", pts |-> [i \in 1..Len(f.pts) |-> Pt(f.pts[i])], cells |-> Cells2(f.cells)]
  ELSE IF f.k = "R" THEN [k |-> "R", s |-> Pt(f.s), e |-> Pt(f.e), r |-> f.r, b |-> B(f.b), f |-> B(f.f), cells |-> Cells2(f.cells)]
  ELSE [k |-> "T", cell |-> Pt(f.cell), s |-> f.t, cells |-> Cells2(f.cells)]
NoCells(f) == IF f.k = "A" THEN [k |-> "A", s |-> f.s, e |-> f.e, r |-> f.r, sw |-> f.sw, mj |-> f.mj]
              ELSE IF f.k = "C" THEN [k |-> "C", c |-> f.c, r |-> f.r, f |-> f.f]
              ELSE IF f.k = "R" THEN [k |-> "R", s |-> f.s, e |-> f.e, r |-> f.r, b |-> f.b, f |-> f.f] ELSE f
\* a fragment without the cells it came from (any kind)
NoCells2(f) == [x \in (DOMAIN f) \ {"cells"} |-> f[x]]
Frags(fs) == [i \in 1..Len(fs) |-> Frag(fs[i])]
Groups(gs) == [i \in 1..Len(gs) |-> Frags(gs[i])]
Span2(sp) == [i \in 1..Len(sp) |-> Pt(sp[i])]
SameBagSeq(s1, s2) == Len(s1) = Len(s2) /\ \A x \in RangeOf(s1) \cup RangeOf(s2) :
   Cardinality({ i \in 1..Len(s1) : s1[i] = x }) = Cardinality({ i \in 1..Len(s2) : s2[i] = x })
Mark(ok, tag) == IF ok THEN bad ELSE bad \cup {<<l, tag>>}
\* diagnostics: on a mismatch print what the model expected next to what was logged
Diag(ok, tag, model, logged) == IF ok THEN TRUE ELSE PrintT(<<"MISMATCH", l, tag, "model", model, "logged", logged>>)

Init == /\ l = 1 /\ bad = {} /\ cs = <<>> /\ merged = <<>> /\ contacts = <<>> /\ rejects = <<>> /\ ninv = 0
        /\ phase = "endorse" /\ freeAcc = <<>> /\ groupAcc = <<>>
Step(ev) ==
  CASE ev.ev = "cells" ->
         LET logged == [i \in 1..Len(ev.cells) |-> <<ev.cells[i][1], ev.cells[i][2], ev.cells[i][3]>>] IN
         /\ bad' = Mark(logged = CellSeq(ev.rows), "cells")
         /\ cs' = logged /\ UNCHANGED <<merged, contacts, rejects>> /\ ninv' = ninv + 1
         /\ phase' = "endorse" /\ freeAcc' = <<>> /\ groupAcc' = <<>>
    [] ev.ev = "spans" ->
         LET logged == [i \in 1..Len(ev.spans) |-> Span2(ev.spans[i])] IN
         /\ bad' = Mark(logged = SpansOf(cs), "spans")
                   \cup (IF \A i, j \in 1..Len(logged) : i # j => ~SpanCan(logged[i], logged[j]) THEN {} ELSE {<<l, "inv:span-fixpoint">>})
         /\ UNCHANGED <<cs, merged, contacts, rejects, phase, freeAcc, groupAcc>> /\ ninv' = ninv + 1
    [] ev.ev = "circle" ->
         LET model == EndorseCat(cs, Span2(ev.span)) IN
         /\ bad' = Mark([i \in 1..Len(ev.accepted) |-> NoCells(Frag(ev.accepted[i]))] = model[1] /\ Span2(ev.rest) = model[2], "circle")
         /\ phase' = "endorse" /\ freeAcc' = freeAcc \o [i \in 1..Len(ev.accepted) |-> NoCells(Frag(ev.accepted[i]))]
         /\ UNCHANGED <<cs, merged, contacts, rejects, ninv, groupAcc>>
    [] ev.ev = "merged" ->
         LET logged == Frags(ev.frags) model == Merged(cs, Span2(ev.span)) IN
         \* compared as bags: the code sorts the fragments of a cell with a comparison that is not a total
         \* order across kinds (polygon-polygon by first/last vertex, polygon-line by bounding box), so their
         \* relative order is an artefact of the sort routine; the model continues from the logged order
         /\ Diag(SameBagSeq(logged, model), "merged", model, logged)
         /\ bad' = Mark(SameBagSeq(logged, model), "merged")
                   \cup (IF \A i, j \in 1..Len(logged) : i # j => ~FragCan(logged[i], logged[j]) THEN {} ELSE {<<l, "inv:merge-fixpoint">>})
         /\ merged' = logged /\ UNCHANGED <<cs, contacts, rejects, phase, freeAcc, groupAcc>> /\ ninv' = ninv + 1
    [] ev.ev = "contacts" ->
         LET logged == Groups(ev.groups) IN
         /\ bad' = Mark(logged = ContactsOf(merged), "contacts")
                   \cup (IF Len(logged) <= Len(merged) THEN {} ELSE {<<l, "inv:pass-grew">>})
         /\ contacts' = logged /\ UNCHANGED <<cs, merged, rejects, phase>> /\ ninv' = ninv + 1
         /\ IF phase = "regroup"
            THEN /\ freeAcc' = freeAcc \o FoldLeft(LAMBDA lst, GG : IF Len(GG) = 1 THEN Append(lst, NoCells2(GG[1])) ELSE lst, <<>>, logged)
                 /\ groupAcc' = groupAcc \o SelectSeq(logged, LAMBDA GG : Len(GG) > 1)
            ELSE UNCHANGED <<freeAcc, groupAcc>>
    [] ev.ev = "rects" ->
         LET acc == [i \in 1..Len(ev.accepted) |-> NoCells(Frag(ev.accepted[i]))] rej == Groups(ev.rejects)
             mrects == SelectSeq(contacts, Endorsable) mrej == SelectSeq(contacts, LAMBDA GG : ~Endorsable(GG)) IN
         /\ bad' = Mark(acc = [i \in 1..Len(mrects) |-> RectOf(mrects[i])] /\ rej = mrej, "rects")
         /\ rejects' = rej /\ UNCHANGED <<cs, merged, contacts, ninv, phase, groupAcc>>
         /\ freeAcc' = freeAcc \o acc
    [] ev.ev = "reendorse" ->
         LET logged == [i \in 1..Len(ev.rejects) |-> Span2(ev.rejects[i])]
             model == MergeRec([i \in 1..Len(rejects) |-> GroupCells(rejects[i])], SpanCan, SpanMrg) IN
         /\ bad' = Mark(logged = [i \in 1..Len(model) |-> EndorseCat(cs, model[i])[2]]
                         /\ [i \in 1..Len(ev.accepted) |-> NoCells(Frag(ev.accepted[i]))] = FoldLeft(LAMBDA lst, sp : lst \o EndorseCat(cs, sp)[1], <<>>, model),
                         "reendorse")
         /\ phase' = "regroup" /\ freeAcc' = freeAcc \o [i \in 1..Len(ev.accepted) |-> NoCells(Frag(ev.accepted[i]))]
         /\ UNCHANGED <<cs, merged, contacts, rejects, ninv, groupAcc>>
    [] ev.ev = "regroup" ->      \* stage 12: the free fragments and the groups of the whole conversion
         LET free == [i \in 1..Len(ev.free) |-> NoCells2(Frag(ev.free[i]))]
             groups == [i \in 1..Len(ev.groups) |-> [j \in 1..Len(ev.groups[i]) |-> NoCells2(Frag(ev.groups[i][j]))]]
             mgroups == [i \in 1..Len(groupAcc) |-> [j \in 1..Len(groupAcc[i]) |-> NoCells2(groupAcc[i][j])]] IN
         /\ bad' = Mark(SameBagSeq(free, [i \in 1..Len(freeAcc) |-> NoCells2(freeAcc[i])]) /\ groups = mgroups, "regroup")
         /\ UNCHANGED <<cs, merged, contacts, rejects, phase, freeAcc, groupAcc>> /\ ninv' = ninv + 1
    [] ev.ev = "enclose" ->      \* stage 15: the free elements (and the quoted texts) arranged by bounding boxes; {tags} become classes
         \* ev.items: the elements offered, as tuples of PipelineOps!Strip (default scale: lattice units);
         \* ev.flat: what the code's forest holds, flattened: <<tuple, class names>> per element that is still there
         LET enc == EncloseAll(ev.items)
             keptIdx == SelectSeq([i \in 1..Len(ev.items) |-> i], LAMBDA i : i \notin enc.gone)
             model == [j \in 1..Len(keptIdx) |-> <<ev.items[keptIdx[j]], enc.cls[keptIdx[j]]>>]
             logged == [j \in 1..Len(ev.flat) |-> <<ev.flat[j][1], ev.flat[j][2]>>] IN
         /\ Diag(SameBagSeq(logged, model), "enclose", model, logged)
         /\ bad' = Mark(SameBagSeq(logged, model), "enclose")
                   \* stage invariants on the logged forest: nothing is invented, and only a text that parses as a tag may go
                   \cup (IF \A j \in 1..Len(logged) : \E i \in 1..Len(ev.items) : ev.items[i] = logged[j][1] THEN {} ELSE {<<l, "inv:enclose-invented">>})
                   \cup (IF Len(logged) <= Len(ev.items) /\ (Len(logged) < Len(ev.items) => \E i \in 1..Len(ev.items) : TagNames(ev.items[i]) # <<>>)
                         THEN {} ELSE {<<l, "inv:enclose-lost">>})
         /\ UNCHANGED <<cs, merged, contacts, rejects, phase, freeAcc, groupAcc>> /\ ninv' = ninv + 1
    [] OTHER -> bad' = bad /\ UNCHANGED <<cs, merged, contacts, rejects, ninv, phase, freeAcc, groupAcc>>
Next == l <= Len(Rec) /\ l' = l + 1 /\ Step(Rec[l])
Report == l = Len(Rec) + 1 => /\ \A b \in bad : PrintT(<<"BAD", b[1], b[2]>>)
                              /\ PrintT(<<"BADCOUNT", Cardinality(bad)>>)
                              /\ PrintT(<<"NONTRIVIAL", ninv>>)
Accepted == TLCGet("stats").diameter = Len(Rec) + 1
=============================================================================
