---------------------------- MODULE CliBuild ----------------------------
(* The batch mode of the command line tool (crates/svgbob_cli/src/main.rs, fn build) as a        *)
(* machine: the input directory is listed in an order the file system chooses; every regular     *)
(* file with the pattern's extension is converted with the default settings and written to        *)
(* <outdir>/<stem>.svg; a file whose output cannot be written is reported, counted and skipped;    *)
(* the exit status is 0 exactly when the directory exists and no file failed.                       *)
(*   CheckDir -> (Next entry: Skip | Convert | Fail)* -> Exit                                       *)
(* A directory entry is [stem, ext ("bob" | "txt"), blocked (its output path is taken by a          *)
(* directory)].  Invariants: what was written is exactly one document per matching, unblocked       *)
(* entry, under the name <stem>.svg, whatever the listing order; distinct stems give distinct       *)
(* outputs; the status says "failed" exactly when something failed.                                 *)
EXTENDS Integers, Sequences, FiniteSets, TLC, Json
CONSTANTS Stems         \* e.g. {"a", "net.v1", "net.v2"}: stems may contain dots
VARIABLES dir,          \* the scenario: the entries of the input directory
          exists,       \* ... and whether that directory exists at all
          todo,         \* entries not yet visited
          written,      \* set of output names written
          failed,       \* number of files that failed
          pc, exit, diag
vars == <<dir, exists, todo, written, failed, pc, exit, diag>>
Entries == { e \in [stem : Stems, ext : {"bob", "txt"}, blocked : BOOLEAN] : e.ext = "bob" \/ ~e.blocked }
OutName(stem) == stem \o ".svg"
\* a directory has at most one entry per (stem, ext)
Dirs == { d \in SUBSET Entries : \A e1, e2 \in d : (e1.stem = e2.stem /\ e1.ext = e2.ext) => e1 = e2 }
Init == /\ exists \in BOOLEAN /\ dir \in (IF exists THEN Dirs ELSE {{}}) /\ todo = {} /\ written = {} /\ failed = 0
        /\ pc = "checkdir" /\ exit = -1 /\ diag = FALSE
CheckDir == /\ pc = "checkdir"
            /\ IF ~exists THEN pc' = "done" /\ exit' = 1 /\ diag' = TRUE /\ todo' = {}
               ELSE pc' = "list" /\ exit' = exit /\ diag' = diag /\ todo' = dir
            /\ UNCHANGED <<dir, exists, written, failed>>
\* read_dir yields the entries in any order
Visit == /\ pc = "list" /\ todo # {}
         /\ \E e \in todo :
              /\ todo' = todo \ {e}
              /\ IF e.ext # "bob" THEN UNCHANGED <<written, failed, diag>>                       \* other extension: skipped
                 ELSE IF e.blocked THEN failed' = failed + 1 /\ diag' = TRUE /\ UNCHANGED written  \* reported, counted
                 ELSE written' = written \cup {OutName(e.stem)} /\ UNCHANGED <<failed, diag>>
         /\ UNCHANGED <<dir, exists, pc, exit>>
Finish == /\ pc = "list" /\ todo = {}
          /\ pc' = "done" /\ exit' = (IF failed > 0 THEN 1 ELSE 0) /\ diag' = (diag \/ failed > 0)
          /\ UNCHANGED <<dir, exists, todo, written, failed>>
Next == CheckDir \/ Visit \/ Finish
Spec == Init /\ [][Next]_vars /\ WF_vars(Next)
Done == pc = "done"
Matching == { e \in dir : e.ext = "bob" }
\* the outcome is a function of the directory alone (not of the listing order)
OneDocumentPerFile == Done => written = { OutName(e.stem) : e \in { m \in Matching : ~m.blocked } }
NoCollision == Done => Cardinality(written) = Cardinality({ m \in Matching : ~m.blocked })
ExitIffSuccess == Done => ((exit = 0) <=> (exists /\ \A m \in Matching : ~m.blocked))
DiagnosticOnFailure == Done => (exit # 0 => diag)
Terminates == <>Done
SetToSeq(S) == LET RECURSIVE R(_) R(T) == IF T = {} THEN <<>> ELSE LET x == CHOOSE y \in T : TRUE IN <<x>> \o R(T \ {x}) IN R(S)
\* one line per scenario (the outcome does not depend on the listing order): replayed against the real binary
Emit == Done => PrintT(<<"REPLAY", ToJson([exists |-> exists, entries |-> SetToSeq(dir), written |-> SetToSeq(written),
                                           failed |-> failed, exit |-> exit])>>)
=============================================================================
