---------------------------- MODULE MC_Circle ----------------------------
(* Stage 6 (EndorseCircle) on the model: a span that equals a catalogue drawing is replaced  *)
(* by the circle the documented parameters of its entry give (radius = width / 2, centre =    *)
(* radius + edge increment, offset_center_y), moved to where the drawing sits.  For every     *)
(* entry and offset the model's circle must satisfy the independent CircleOracle; each        *)
(* behaviour is printed for replay into the real library.                                    *)
EXTENDS Reference, TLC, Json
CONSTANTS MaxK, MaxN
VARIABLES idx, k, n, done
Init == idx \in 1..Len(CircleDrawings) /\ k \in 0..MaxK /\ n \in 0..MaxN /\ done = FALSE
Next == ~done /\ done' = TRUE /\ UNCHANGED <<idx, k, n>>
D == CircleDrawings[idx]
P == CircleParams[idx]
WidthHalfCells == IF P[1] = 1 THEN 2 * DrawingW(D) ELSE 2 * (DrawingW(D) - 1)    \* width in half cells
\* lattice units: a half cell is 4 units wide; cell rows are 16 high and offset_center_y counts rows * 1/2
ModelRadius == WidthHalfCells * 2
ModelCx == ModelRadius + (IF P[1] = 1 THEN 0 ELSE 4) + CW * k
ModelCy == P[3] * 8 + CH * n
ModelCircle == [k |-> "circle", n |-> <<ModelCx * MILLI, ModelCy * MILLI, ModelRadius * MILLI>>, role |-> <<0, 1, 2>>,
                fl |-> <<>>, cls |-> <<"nofill">>, s |-> <<>>, g |-> 0]
ModelC13 == CircleOracle(D, k, n, ModelCircle)
EdgeFlagMatchesShape == (P[1] = 1) <=> Flush(D)
Emit == done => PrintT(<<"REPLAY", ToJson([rows |-> PlacedRows(D, k, n), out |-> << <<"circle", ModelCx, ModelCy, ModelRadius>> >>,
                                           circ |-> [idx |-> idx, k |-> k, n |-> n, extra |-> 0]])>>)
=============================================================================
