//! bobdrive — drives the real svgbob library for the verification framework.
//!
//!   bobdrive batch <requests.ndjson> <responses.ndjson>
//!   bobdrive threads <n> <requests.ndjson> <responses.ndjson>
//!   bobdrive tables <out.json>
//!
//! Responses go to a file, never to stdout (the library itself prints to stdout in a few
//! places). A panic of the library is an outcome, not a failure of this program; if the
//! process dies (abort, stack overflow) the orchestrator sees a truncated response file and
//! resumes after the request that killed it.
use serde::Deserialize;
use std::{
    cell::RefCell,
    fs::File,
    io::{BufRead, BufReader, BufWriter, Write},
    panic,
    sync::{Arc, Barrier, Mutex},
    time::Instant,
};
use svgbob::Settings;

#[derive(Deserialize, Clone, Default)]
struct SettingsReq {
    font_size: Option<usize>,
    font_family: Option<String>,
    fill_color: Option<String>,
    background: Option<String>,
    stroke_color: Option<String>,
    stroke_width: Option<f32>,
    scale: Option<f32>,
    include_backdrop: Option<bool>,
    include_styles: Option<bool>,
    include_defs: Option<bool>,
}

/// one step of a script on ONE CellBuffer object (entry "script"): the buffer is built from the request's input and
/// then read and written through its public API, as a caller that keeps the object would
#[derive(Deserialize, Clone)]
#[serde(tag = "op")]
enum Op {
    #[serde(rename = "render")]
    Render {
        #[serde(default)]
        settings: SettingsReq,
    },
    #[serde(rename = "override")]
    Override {
        #[serde(default)]
        settings: SettingsReq,
        w: f32,
        h: f32,
    },
    #[serde(rename = "node")]
    NodeDefault,
    #[serde(rename = "insert")]
    Insert { x: i32, y: i32, ch: u32 },
    #[serde(rename = "remove")]
    Remove { x: i32, y: i32 },
    #[serde(rename = "css")]
    Css { name: String, decl: String },
    #[serde(rename = "clone")]
    CloneSelf,
}

#[derive(Deserialize, Clone)]
struct Request {
    id: u64,
    #[serde(default)]
    ops: Vec<Op>,
    input: String,
    #[serde(default = "default_entry")]
    entry: String,
    #[serde(default)]
    settings: SettingsReq,
    #[serde(default)]
    w: f32,
    #[serde(default)]
    h: f32,
    #[serde(default)]
    stages: bool,
}

fn default_entry() -> String {
    "to_svg".to_string()
}

fn settings_of(req: &SettingsReq) -> Settings {
    let mut s = Settings::default();
    if let Some(v) = req.font_size {
        s.font_size = v;
    }
    if let Some(v) = &req.font_family {
        s.font_family = v.clone();
    }
    if let Some(v) = &req.fill_color {
        s.fill_color = v.clone();
    }
    if let Some(v) = &req.background {
        s.background = v.clone();
    }
    if let Some(v) = &req.stroke_color {
        s.stroke_color = v.clone();
    }
    if let Some(v) = req.stroke_width {
        s.stroke_width = v;
    }
    if let Some(v) = req.scale {
        s.scale = v;
    }
    if let Some(v) = req.include_backdrop {
        s.include_backdrop = v;
    }
    if let Some(v) = req.include_styles {
        s.include_styles = v;
    }
    if let Some(v) = req.include_defs {
        s.include_defs = v;
    }
    s
}

fn convert(req: &Request) -> String {
    match req.entry.as_str() {
        "to_svg" => svgbob::to_svg(&req.input),
        "pretty" => svgbob::to_svg_string_pretty(&req.input),
        "compressed" => svgbob::to_svg_string_compressed(&req.input),
        "settings" => {
            svgbob::to_svg_with_settings(&req.input, &settings_of(&req.settings))
        }
        "override" => svgbob::to_svg_with_override_size(
            &req.input,
            &settings_of(&req.settings),
            req.w,
            req.h,
        ),
        "script" => script(req),
        other => panic!("bobdrive: unknown entry {}", other),
    }
}

/// record separator between the documents a script renders (cannot occur inside a document: U+001E is not an XML Char)
const SEP: &str = "\n\u{1e}\n";

fn script(req: &Request) -> String {
    use svgbob::{Cell, CellBuffer, Node};
    let mut cb = CellBuffer::from(req.input.as_str());
    let mut out: Vec<String> = vec![];
    for op in &req.ops {
        match op {
            Op::Render { settings } => {
                let (node, _w, _h): (Node<()>, f32, f32) = cb.get_node_with_size(&settings_of(settings));
                let mut b = String::new();
                node.render(&mut b).expect("must render");
                out.push(b);
            }
            Op::Override { settings, w, h } => {
                let node: Node<()> = cb.get_node_override_size(&settings_of(settings), *w, *h);
                let mut b = String::new();
                node.render(&mut b).expect("must render");
                out.push(b);
            }
            Op::NodeDefault => {
                let node: Node<()> = cb.get_node();
                let mut b = String::new();
                node.render(&mut b).expect("must render");
                out.push(b);
            }
            Op::Insert { x, y, ch } => {
                cb.insert(Cell::new(*x, *y), char::from_u32(*ch).expect("scalar value"));
            }
            Op::Remove { x, y } => {
                cb.remove(&Cell::new(*x, *y));
            }
            Op::Css { name, decl } => {
                cb.add_css_styles(vec![(name.clone(), decl.clone())]);
            }
            Op::CloneSelf => {
                cb = cb.clone();
            }
        }
    }
    out.join(SEP)
}

thread_local! {
    static LAST_PANIC: RefCell<String> = RefCell::new(String::new());
}

fn install_panic_hook() {
    panic::set_hook(Box::new(|info| {
        let msg = format!("{}", info);
        LAST_PANIC.with(|p| *p.borrow_mut() = msg);
    }));
}

/// run one request; returns the response line (one JSON object)
fn run_one(req: &Request) -> String {
    if req.stages {
        svgbob::verif::start();
    } else {
        svgbob::verif::reset_counters();
    }
    let started = Instant::now();
    let result = panic::catch_unwind(|| convert(req));
    let us = started.elapsed().as_micros();
    let stages = if req.stages {
        svgbob::verif::take()
    } else {
        vec![]
    };
    let (ma, mp, ea, ep, grow) = svgbob::verif::counters();
    match result {
        Ok(svg) => format!(
            "{{\"id\":{},\"ok\":true,\"us\":{},\"work\":[{},{},{},{},{}],\"stages\":[{}],\"svg\":{}}}",
            req.id,
            us,
            ma,
            mp,
            ea,
            ep,
            grow,
            stages.join(","),
            serde_json::to_string(&svg).unwrap()
        ),
        Err(_) => {
            let msg = LAST_PANIC.with(|p| p.borrow().clone());
            format!(
                "{{\"id\":{},\"ok\":false,\"us\":{},\"stages\":[{}],\"panic\":{}}}",
                req.id,
                us,
                stages.join(","),
                serde_json::to_string(&msg).unwrap()
            )
        }
    }
}

fn read_requests(path: &str) -> Vec<Request> {
    let f = File::open(path).expect("bobdrive: cannot open request file");
    BufReader::new(f)
        .lines()
        .map(|l| l.expect("bobdrive: read error"))
        .filter(|l| !l.trim().is_empty())
        .map(|l| serde_json::from_str::<Request>(&l).expect("bobdrive: bad request line"))
        .collect()
}

/// The requests of a batch are converted on a thread with the stack a spawned Rust thread gets by default (2 MiB: what a
/// caller that converts on a worker thread, or the server's runtime threads, have), not on the 8 MiB main thread: a
/// recursion whose depth grows with the input shows up at the sizes the checks use.
fn batch(inp: &str, out: &str) {
    let (inp, out) = (inp.to_string(), out.to_string());
    let h = std::thread::Builder::new()
        .stack_size(2 << 20)
        .spawn(move || batch_on_this_thread(&inp, &out))
        .expect("bobdrive: cannot spawn the worker thread");
    h.join().expect("bobdrive: worker thread died");
}

fn batch_on_this_thread(inp: &str, out: &str) {
    install_panic_hook();
    let f = File::open(inp).expect("bobdrive: cannot open request file");
    let mut w = BufWriter::new(File::create(out).expect("bobdrive: cannot create output"));
    for line in BufReader::new(f).lines() {
        let line = line.expect("bobdrive: read error");
        if line.trim().is_empty() {
            continue;
        }
        let req: Request = serde_json::from_str(&line).expect("bobdrive: bad request line");
        // tell the orchestrator which request is in flight, so that a crash is attributable
        writeln!(w, "{{\"begin\":{}}}", req.id).unwrap();
        w.flush().unwrap();
        let resp = run_one(&req);
        writeln!(w, "{}", resp).unwrap();
        w.flush().unwrap();
    }
}

/// n threads released from one barrier; thread i converts the whole corpus starting at a
/// different position, so that the very first (table-initialising) calls race and every
/// thread sees a different history.
fn threads(n: usize, inp: &str, out: &str, same_start: bool) {
    install_panic_hook();
    let reqs = Arc::new(read_requests(inp));
    let w = Arc::new(Mutex::new(BufWriter::new(
        File::create(out).expect("bobdrive: cannot create output"),
    )));
    let barrier = Arc::new(Barrier::new(n));
    let mut handles = vec![];
    for t in 0..n {
        let reqs = reqs.clone();
        let w = w.clone();
        let barrier = barrier.clone();
        handles.push(
            std::thread::Builder::new()
                .stack_size(8 << 20)
                .spawn(move || {
                    svgbob::verif::set_thread_tag(t as u64 + 1);
                    let len = reqs.len();
                    // either every thread starts with the same request (the very first calls race on
                    // the same tables) or each starts at a different position
                    let start = if same_start || n == 0 { 0 } else { t * len / n };
                    let mut lines = Vec::with_capacity(len);
                    barrier.wait();
                    for k in 0..len {
                        let req = &reqs[(start + k) % len];
                        let resp = run_one(req);
                        lines.push(format!(
                            "{{\"thread\":{},\"seq\":{},\"resp\":{}}}",
                            t + 1,
                            k,
                            resp
                        ));
                    }
                    let mut w = w.lock().unwrap();
                    for l in lines {
                        writeln!(w, "{}", l).unwrap();
                    }
                })
                .unwrap(),
        );
    }
    for h in handles {
        h.join().expect("bobdrive: worker thread died");
    }
    let mut w = w.lock().unwrap();
    for l in svgbob::verif::lazy_log() {
        writeln!(w, "{{\"lazy\":{}}}", l).unwrap();
    }
    w.flush().unwrap();
}

fn tables(out: &str) {
    let mut w = File::create(out).expect("bobdrive: cannot create output");
    writeln!(w, "{}", svgbob::verif::catalogue_tables_json()).unwrap();
}

/// the Unicode glyph table (character -> fragments) as JSON lines
fn glyphs(out: &str) {
    let mut w = File::create(out).expect("bobdrive: cannot create output");
    for (ch, frags) in svgbob::map::UNICODE_FRAGMENTS.iter() {
        let items: Vec<String> = frags.iter().map(svgbob::verif::json_fragment).collect();
        writeln!(w, "{{\"ch\":{},\"frags\":[{}]}}", *ch as u32, items.join(",")).unwrap();
    }
}

fn main() {
    let args: Vec<String> = std::env::args().collect();
    match args.get(1).map(|s| s.as_str()) {
        Some("batch") if args.len() == 4 => batch(&args[2], &args[3]),
        Some("threads") if args.len() == 5 || args.len() == 6 => threads(
            args[2].parse().expect("thread count"),
            &args[3],
            &args[4],
            args.get(5).map(|s| s == "same").unwrap_or(false),
        ),
        Some("tables") if args.len() == 3 => tables(&args[2]),
        Some("glyphs") if args.len() == 3 => glyphs(&args[2]),
        _ => {
            eprintln!("usage: bobdrive batch <in> <out> | threads <n> <in> <out> | tables <out>");
            std::process::exit(2);
        }
    }
}
