#!/usr/bin/env python3
"""tools/mutant_iso.py <patch.diff> <Cxx> [<Cyy> ...] [--tier quick] [--keep]
Runs the named checks against a seeded change WITHOUT touching /repo: a scratch git worktree of /repo gets the patch,
a copy of /verif (without build output) gets its harness pointed at that worktree, and the checks run there with
VERIF_REPO set.  Several of these can run side by side, and next to checks of the unchanged tree.  Prints one line per
check (CAUGHT / missed / TOOL-ERROR) and removes the scratch directory."""
import os, shutil, subprocess, sys, tempfile, time
args = [a for a in sys.argv[1:] if not a.startswith("--")]
tier = "quick"
if "--tier" in sys.argv:
    tier = sys.argv[sys.argv.index("--tier") + 1]
    args.remove(tier)
patch, props = os.path.abspath(args[0]), args[1:]
base = tempfile.mkdtemp(prefix="vm-", dir="/tmp")
repo, verif = os.path.join(base, "repo"), os.path.join(base, "verif")
try:
    subprocess.run(["git", "-C", "/repo", "worktree", "add", "-q", "--detach", repo, os.environ.get("VERIF_BASE", "HEAD")], check=True)
    r = subprocess.run(["git", "-C", repo, "apply", "--whitespace=nowarn", patch], capture_output=True, text=True)
    if r.returncode != 0:
        print("patch does not apply:", r.stderr)
        sys.exit(2)
    subprocess.run(["rsync", "-a", "--exclude", "target", "--exclude", ".work", "--exclude", ".git", "--exclude", "replays",
                    "--exclude", "seeded", os.environ.get("VERIF_SRC", "/verif").rstrip("/") + "/", verif + "/"], check=True)
    ct = os.path.join(verif, "harness", "Cargo.toml")
    txt = open(ct).read().replace('"/repo/crates/svgbob"', '"%s/crates/svgbob"' % repo)
    open(ct, "w").write(txt)
    env = dict(os.environ, VERIF_REPO=repo)
    s = subprocess.run(["./check", "setup"], cwd=verif, env=env, capture_output=True, text=True)
    if s.returncode != 0:
        print("TOOL-ERROR setup failed (does the change compile with the hooks on?)\n" + (s.stdout + s.stderr)[-1500:])
        sys.exit(2)
    for p in props:
        t0 = time.time()
        c = subprocess.run(["./check", p, "--tier", tier, "--no-build"], cwd=verif, env=env, capture_output=True, text=True)
        nv = c.stdout.count("VIOLATION property=")
        tag = "CAUGHT" if c.returncode == 1 and nv else ("TOOL-ERROR" if c.returncode == 2 else "missed")
        print("%s %s rc=%d violations=%d %.0fs" % (p, tag, c.returncode, nv, time.time() - t0), flush=True)
        if c.returncode == 2:
            print((c.stdout + c.stderr)[-1500:])
        if nv and "--show" in sys.argv:
            import glob, json
            f = sorted(glob.glob(os.path.join(verif, "replays", p, "*.json")))[0]
            print(json.dumps(json.load(open(f)), ensure_ascii=False)[:1200])
finally:
    if "--keep" not in sys.argv:
        subprocess.run(["git", "-C", "/repo", "worktree", "remove", "--force", repo], capture_output=True)
        shutil.rmtree(base, ignore_errors=True)
        subprocess.run(["git", "-C", "/repo", "worktree", "prune"], capture_output=True)
