#!/bin/bash
# tools/chain_seeds.sh <suffix> P1[:M] P2[:M] ... : confirm (tools/confirm_seed.sh) and adopt (tools/adopt_seed.py) the
# sub-agents' seeds /tmp/mut/<P>-out/<M>.* (M = A by default) one after the other; each adopted seed is run against
# its own check
S=$1; shift
cd /verif
for X in "$@"; do
  P=${X%%:*}; M=${X##*:}; [ "$M" = "$X" ] && M=A
  V=$(bash tools/confirm_seed.sh $P $M 2>&1 | grep VERDICT)
  echo "$V"
  if echo "$V" | grep -q "110 passed 0 failed" && echo "$V" | grep -qv "demo_with_change_rc=0" && echo "$V" | grep -q "demo_without_rc=0"; then
    SEED_SUFFIX=$S python3 tools/adopt_seed.py $P $M "$V" -- $P 2>&1 | grep -E "^C[0-9]+ |caught|missed" | tail -3
  else
    echo "NOT CONFIRMED $P $M"
  fi
done
echo CHAIN-DONE
