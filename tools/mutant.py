#!/usr/bin/env python3
"""tools/mutant.py <patch.diff> <Cxx> [<Cyy> ...] [--tier quick] [--tests]
Applies a seeded change to /repo's working tree, runs the named checks against it, and always
restores the tree afterwards (git checkout -- .).  Prints one line per check: caught / missed."""
import subprocess, sys, os, time
ROOT = os.path.dirname(os.path.dirname(os.path.abspath(__file__)))
args = [a for a in sys.argv[1:] if not a.startswith("--")]
tier = "quick"
if "--tier" in sys.argv:
    tier = sys.argv[sys.argv.index("--tier") + 1]
    args.remove(tier)
patch, props = args[0], args[1:]
st = subprocess.run(["git", "-C", "/repo", "status", "--porcelain", "--untracked-files=no"], capture_output=True, text=True).stdout
if st.strip():
    print("refusing: /repo has local changes:\n" + st); sys.exit(2)
r = subprocess.run(["git", "-C", "/repo", "apply", "--whitespace=nowarn", os.path.abspath(patch)], capture_output=True, text=True)
if r.returncode != 0:
    print("patch does not apply:", r.stderr); sys.exit(2)
results = {}
try:
    if "--tests" in sys.argv:
        t = subprocess.run("cd /repo && cp Cargo.lock /tmp/.lock.sav && cargo test --workspace --offline 2>&1 | grep -E '^test result|FAILED|failed' | head -20; cp /tmp/.lock.sav Cargo.lock",
                           shell=True, capture_output=True, text=True)
        print(t.stdout)
    for p in props:
        t0 = time.time()
        c = subprocess.run([os.path.join(ROOT, "check"), p, "--tier", tier], cwd=ROOT, capture_output=True, text=True)
        nv = c.stdout.count("VIOLATION property=")
        first = [l for l in c.stdout.split("\n") if l.startswith("VIOLATION")][:1]
        results[p] = (c.returncode, nv)
        tag = "CAUGHT" if c.returncode == 1 and nv else ("TOOL-ERROR" if c.returncode == 2 else "missed")
        print("%s %s rc=%d violations=%d %.0fs %s" % (p, tag, c.returncode, nv, time.time() - t0, first[0] if first else ""))
        if c.returncode == 2:
            print(c.stderr[-1500:])
finally:
    subprocess.run(["git", "-C", "/repo", "checkout", "--", "."], check=True)
    # rebuild the harness from the restored tree so that a later --no-build run is not stale
    subprocess.run(["cargo", "build", "--release", "--offline"], cwd=os.path.join(ROOT, "harness"), capture_output=True)
    print("restored /repo")
