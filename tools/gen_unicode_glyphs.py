#!/usr/bin/env python3
"""Freeze the Unicode glyph table (bobdrive glyphs) into spec/UnicodeGlyphs.tla (lattice units)."""
import json, sys
def L8(v):
    x = v * 8
    assert abs(x - round(x)) < 1e-6, v
    return int(round(x))
def pt(p): return "<<%d, %d>>" % (L8(p[0]), L8(p[1]))
def B(x): return "TRUE" if x else "FALSE"
def frag(f):
    k = f["k"]
    if k == "line": return '[k |-> "L", s |-> %s, e |-> %s, b |-> %s]' % (pt(f["s"]), pt(f["e"]), B(f["b"]))
    if k == "arc": return '[k |-> "A", s |-> %s, e |-> %s, r |-> %d, sw |-> %s, mj |-> %s]' % (pt(f["s"]), pt(f["e"]), L8(f["r"]), B(f["sweep"]), B(f["major"]))
    if k == "circle": return '[k |-> "C", c |-> %s, r |-> %d, f |-> %s]' % (pt(f["c"]), L8(f["r"]), B(f["f"]))
    if k == "polygon": return '[k |-> "P", pts |-> <<%s>>]' % ", ".join(pt(p) for p in f["pts"])
    if k == "rect": return '[k |-> "R", s |-> %s, e |-> %s, r |-> %d, b |-> %s, f |-> %s]' % (pt(f["s"]), pt(f["e"]), L8(f["r"]), B(f["b"]), B(f["f"]))
    raise SystemExit("unexpected fragment kind " + k)
rows = [json.loads(l) for l in open(sys.argv[1])]
out = ["---------------------------- MODULE UnicodeGlyphs ----------------------------",
       "(* The Unicode glyph table (map/unicode_map.rs UNICODE_FRAGMENTS): every character draws a fixed  *)",
       "(* set of fragments whatever its neighbours, and counts as a Strong signal for them.  Dumped once  *)",
       "(* through bobdrive at the pinned commit and frozen here, in lattice units local to the cell.       *)",
       "EXTENDS Integers, Sequences", "",
       "UnicodeChars == {%s}" % ", ".join(str(r["ch"]) for r in rows), "",
       "UniFrags(ch) =="]
for i, r in enumerate(rows):
    out.append("  %s ch = %d -> <<%s>>" % ("CASE" if i == 0 else "  []", r["ch"], ", ".join(frag(f) for f in r["frags"])))
out.append("    [] OTHER -> <<>>")
out.append("=============================================================================")
open(sys.argv[2], "w").write("\n".join(out) + "\n")
print(len(rows), "glyphs")
