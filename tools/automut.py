#!/usr/bin/env python3
"""tools/automut.py <n> <seed> <out.json> [--chars "-|+."] : a small automatic mutation campaign on the glyph table
(crates/svgbob/src/map/ascii_map.rs), complementing the seeded changes written by sub-agents.

For each sampled character block one token is changed (a cell point letter, line_overlap <-> line_strongly_overlap,
Strong / Medium / Weak); the change is applied to /repo, `cargo test --workspace --offline` must pass (otherwise the
mutant is discarded as "killed by the suite" or "does not compile"), then the glyph-related checks run
(C03 C05 C09 C14 by default).  /repo is restored after every mutant.  Nothing is committed; results go to <out.json>.
"""
import json, os, random, re, subprocess, sys

REPO = "/repo"
FILE = os.path.join(REPO, "crates/svgbob/src/map/ascii_map.rs")
CHECKS = ["C03", "C05", "C09", "C14"]
POINTS = "abcdefghijklmnopqrstuvwxy"


def blocks(src):
    """character -> (first line, last line) of its block (0-based, inclusive)"""
    lines = src.split("\n")
    starts = [(i, m.group(1)) for i, ln in enumerate(lines) for m in [re.match(r"^            '(\\?.)',\s*$", ln)] if m]
    out = {}
    for j, (i, ch) in enumerate(starts):
        end = starts[j + 1][0] - 2 if j + 1 < len(starts) else len(lines) - 1
        out[ch.replace("\\", "") if ch != "\\\\" else "\\"] = (i, end)
    return out


def candidates(lines, lo, hi, rnd):
    cands = []
    for i in range(lo, hi + 1):
        ln = lines[i]
        if ln.strip().startswith("//"):
            continue
        for m in re.finditer(r"\b(line|arc|broken_line|line_overlap|line_strongly_overlap|line_weakly_overlap|polygon|circle|arrow_line)\(([^()]*)\)", ln):
            args = m.group(2)
            for pm in re.finditer(r"\b([a-y])\b", args):
                p = pm.group(1)
                q = rnd.choice([x for x in POINTS if x != p])
                s, e = m.start(2) + pm.start(1), m.start(2) + pm.end(1)
                cands.append((i, ln[:s] + q + ln[e:], "point %s->%s in %s(..)" % (p, q, m.group(1))))
        for a, b in (("line_overlap", "line_strongly_overlap"), ("line_strongly_overlap", "line_overlap"),
                     ("Strong,", "Medium,"), ("Medium,", "Weak,"), ("Weak,", "Medium,"), ("Medium,", "Strong,"),
                     ("||", "&&"), ("&&", "||")):
            for m in re.finditer(re.escape(a), ln):
                cands.append((i, ln[:m.start()] + b + ln[m.end():], "%s -> %s" % (a, b)))
    return cands


def sh(cmd, cwd=None, timeout=3600):
    return subprocess.run(cmd, cwd=cwd, shell=True, capture_output=True, text=True, timeout=timeout)


def main():
    n, seed, outp = int(sys.argv[1]), int(sys.argv[2]), sys.argv[3]
    chars = sys.argv[sys.argv.index("--chars") + 1] if "--chars" in sys.argv else "-~|!:+_.,'`/\\Vv^><=*oO"
    rnd = random.Random(seed)
    src = open(FILE).read()
    lines = src.split("\n")
    blk = blocks(src)
    results = []
    picked = []
    for k in range(n):
        ch = chars[k % len(chars)]
        if ch not in blk:
            continue
        lo, hi = blk[ch]
        c = candidates(lines, lo, hi, rnd)
        if c:
            picked.append((ch,) + rnd.choice(c))
    for ch, i, newline, what in picked:
        mutated = lines[:]
        mutated[i] = newline
        rec = {"char": ch, "line": i + 1, "change": what, "old": lines[i].strip(), "new": newline.strip()}
        try:
            open(FILE, "w").write("\n".join(mutated))
            t = sh("cargo test --workspace --offline 2>&1 | grep -E '^test result|^error' ", cwd=REPO)
            res = t.stdout
            if "error" in res and "test result" not in res:
                rec["status"] = "does not compile"
            else:
                failed = sum(int(x) for x in re.findall(r"(\d+) failed", res))
                passed = sum(int(x) for x in re.findall(r"(\d+) passed", res))
                if failed or passed < 110:
                    rec["status"] = "killed by the suite (%d failed)" % failed
                else:
                    rec["status"] = "survives the suite"
                    sh("cd /repo && git checkout -q Cargo.lock")
                    sh("cd /verif && ./check setup >/dev/null 2>&1")
                    rec["checks"] = {}
                    for c in CHECKS:
                        r = sh("cd /verif && ./check %s --no-build 2>&1 | tail -3" % c)
                        m = re.search(r"(\d+) violations", r.stdout)
                        rec["checks"][c] = {"rc": r.returncode, "violations": int(m.group(1)) if m else None}
                    rec["caught_by"] = [c for c, v in rec["checks"].items() if v["violations"]]
        finally:
            open(FILE, "w").write(src)
            sh("cd /repo && git checkout -q -- . ")
        results.append(rec)
        json.dump(results, open(outp, "w"), indent=1, ensure_ascii=False)
        print(json.dumps(rec, ensure_ascii=False), flush=True)
    sh("cd /verif && ./check setup >/dev/null 2>&1")


if __name__ == "__main__":
    main()
