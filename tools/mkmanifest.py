#!/usr/bin/env python3
"""Regenerates /verif/MANIFEST.json from the table below (keeps it valid at all times)."""
import json, os, subprocess, sys
ROOT = os.path.dirname(os.path.dirname(os.path.abspath(__file__)))
sys.path.insert(0, ROOT)
from verifpy import props

TRUST = ("TLC, the Json/IOUtils community modules and the 32-bit integer discipline; expat and the purely "
         "syntactic projection verifpy/project.py; the child-process boundary of bobdrive. About the code the "
         "guarantee is per observed execution (bounded-exhaustive families and seeded samples), about the "
         "specification it is exhaustive within the stated constants.")

CHECKS = {
 "C03": ("model_checking", "4.C03",
         "TLC enumerates every grid of the stated sizes over {space,-,|,+,label} on Pipeline.tla with the "
         "property predicate as invariant; every behaviour is replayed into the real library and the recorded "
         "document is validated by the trace specification against the independent reference (RefStrokes, "
         "TextsExact); random grids up to 14x8 go the same way.",
         "TLA+ model checking + TLC replay into the code + trace validation of recorded documents"),
 "C06": ("model_checking", "4.C06",
         "shift-commutation is an invariant of the pipeline model on all small grids (TLC); for the code, pairs "
         "(base, shifted) over the full vocabulary at offsets up to 400x200 are recorded and TLC checks the input "
         "relation and ShiftedDoc on every pair.",
         "TLA+ model checking of shift-commutation + relational trace validation"),
 "C10": ("model_checking", "4.C10",
         "juxtaposition-commutation is an invariant of the pipeline model on all pairs of small grids (TLC); for "
         "the code, triples (A, B, A beside/above B) are recorded and TLC checks the input relation and UnionDoc.",
         "TLA+ model checking of span independence + relational trace validation"),
 "C11": ("model_checking", "4.C11",
         "each input is converted at scale 8 and at the other scales of the quantifier; documents are recorded in "
         "lattice units (numbers divided exactly by scale/8) and the trace specification requires ScaledDoc.",
         "relational trace validation (TLC) over the scale set"),
 "C17": ("model_checking", "4.C17",
         "the row splitter under LF/CRLF/trailing blanks is an invariant of the model (TLC, all small grids); for "
         "the code, EOL/trailing-blank variants with and without legend are recorded and TLC checks EolVariant of "
         "the inputs and SameDoc (elements, canvas, style text).",
         "TLA+ model checking of the row splitter + relational trace validation"),
}

def main():
    ids = [json.loads(l)["id"] for l in open(os.path.join(ROOT, "properties.jsonl"))]
    try:
        commits = subprocess.run(["git", "-C", "/repo", "log", "--format=%h %s"], capture_output=True, text=True).stdout.split("\n")
        hooks = [c.split()[0] for c in commits if c.startswith(tuple("0123456789abcdef")) and "verif hooks:" in c]
    except Exception:
        hooks = []
    m = {
     "version": 1,
     "setup_cmd": "cd /verif/harness && cargo build --release --offline",
     "hooks": {
        "guard": "verif-trace (cargo feature of crate svgbob)",
        "enable": "the harness depends on svgbob = { path = \"/repo/crates/svgbob\", features = [\"verif-trace\"] } (harness/Cargo.toml); every check rebuilds it from /repo's working tree",
        "baseline_off_cmd": "cd /repo && (cargo nextest run --workspace --no-fail-fast --offline || cargo test --workspace --no-fail-fast --offline)",
        "source_commits": hooks,
        "add_only": True},
     "engines": [
        {"name": "tlc", "path": "/verif/spec", "serves_properties": sorted(CHECKS), "kind_free_text": "TLA+ specification (Pipeline, Glyphs, Reference, Relations, shells) model-checked with TLC; trace specifications validate executions recorded from the real code"},
        {"name": "bobdrive", "path": "/verif/harness", "serves_properties": sorted(CHECKS), "kind_free_text": "Rust driver around the real library (feature verif-trace): batch conversions in crash-isolated child processes, thread races, table dumps"}],
     "checks": [], "not_applicable": [],
     "notes": "See DESIGN.md. ./check <id> --tier quick|thorough; exit 0 held / 1 VIOLATION / 2 tool error. known_findings.json lists recorded and fixed defects."}
    for pid in ids:
        if pid in CHECKS and pid in props.PLANS:
            cat, ref, text, tech = CHECKS[pid]
            m["checks"].append({
              "property_id": pid,
              "quick_cmd": "./check %s --tier quick" % pid,
              "thorough_cmd": "./check %s --tier thorough" % pid,
              "evidence_file": "/verif/evidence/%s.json" % pid,
              "replay_cmd_template": "./check %s --replay {path}" % pid,
              "engine": "tlc",
              "level_claimed": {"category": cat, "text": text, "design_ref": ref},
              "level_note": TRUST, "technique": tech})
        else:
            m["not_applicable"].append({"property_id": pid, "reason": "check not built yet in this session (planned with the TLA+ specification, DESIGN.md section 4); not claimed until its check exists"})
    json.dump(m, open(os.path.join(ROOT, "MANIFEST.json"), "w"), indent=1)
    print("MANIFEST.json: %d checks, %d not applicable" % (len(m["checks"]), len(m["not_applicable"])))

main()
