#!/usr/bin/env python3
"""Regenerates /verif/MANIFEST.json from the table below (keeps it valid at all times)."""
import json, os, subprocess, sys
ROOT = os.path.dirname(os.path.dirname(os.path.abspath(__file__)))
sys.path.insert(0, ROOT)
from verifpy import props

TRUST = ("TLC, the Json/IOUtils community modules and the 32-bit integer discipline; expat and the purely "
         "syntactic projection verifpy/project.py; the child-process boundary of bobdrive. About the code the "
         "guarantee is per observed execution (bounded-exhaustive families and seeded samples), about the "
         "specification it is exhaustive within the stated constants.")

CHECKS = {
 "C03": ("model_checking", "4.C03",
         "TLC enumerates every grid of the stated sizes over {space,-,|,+,label} on Pipeline.tla with the "
         "property predicate as invariant; every behaviour is replayed into the real library and the recorded "
         "document is validated by the trace specification against the independent reference (RefStrokes, "
         "TextsExact); random grids up to 14x8 go the same way.",
         "TLA+ model checking + TLC replay into the code + trace validation of recorded documents + stage-level trace validation (PipelineTrace)"),
 "C06": ("model_checking", "4.C06",
         "shift-commutation is an invariant of the pipeline model on all small grids (TLC); for the code, pairs "
         "(base, shifted) over the full vocabulary at offsets up to 400x200 are recorded and TLC checks the input "
         "relation and ShiftedDoc on every pair.",
         "TLA+ model checking of shift-commutation + relational trace validation"),
 "C10": ("model_checking", "4.C10",
         "juxtaposition-commutation is an invariant of the pipeline model on all pairs of small grids (TLC); for "
         "the code, triples (A, B, A beside/above B) are recorded and TLC checks the input relation and UnionDoc.",
         "TLA+ model checking of span independence + relational trace validation"),
 "C11": ("model_checking", "4.C11",
         "each input is converted at scale 8 and at the other scales of the quantifier; documents are recorded in "
         "lattice units (numbers divided exactly by scale/8) and the trace specification requires ScaledDoc.",
         "relational trace validation (TLC) over the scale set"),
 "C17": ("model_checking", "4.C17",
         "the row splitter under LF/CRLF/trailing blanks is an invariant of the model (TLC, all small grids); for "
         "the code, EOL/trailing-blank variants with and without legend are recorded and TLC checks EolVariant of "
         "the inputs and SameDoc (elements, canvas, style text); the whole-conversion model (Stages!FullDoc) is run on "
         "the variants themselves and compared with the code (drift).",
         "TLA+ model checking of the row splitter + relational trace validation"),
 "C12": ("model_checking", "4.C12",
         "RefCanvas and Contained are invariants of the pipeline model on all small grids, on the neighbourhood "
         "family MC_Nbhd (every modelled character with at most K neighbours: one test per transition of the glyph "
         "tables) and on the whole-conversion model MC_Full (legend grammar, rows, unquote, quoted texts, canvas); all "
         "behaviours are replayed (elements, canvas and rules compared) and stage-validated; the predicates are "
         "evaluated by the trace specification on every recorded document of a corpus with wide characters, quoted "
         "text at the edges, legends and several scales; the whole-conversion model is also run forwards on this corpus "
         "and on the bundled examples (MC_FullOf) and compared with the code. One recorded finding (quoted text invisible to the canvas).",
         "TLA+ model checking (pipeline, neighbourhood family, whole-conversion model) + TLC replay + trace validation"),
 "C09": ("model_checking", "4.C09",
         "merge fixpoint and NoCollinearTouching are invariants of the pipeline model on all small grids (TLC); "
         "for the code the run family (all line characters, lengths to 400) is checked against RunOracle and every "
         "document of the mixed corpus against NoCollinearTouching, by TLC on the recorded documents.",
         "TLA+ model checking of the merge stage + trace validation (run oracle, pairwise line predicate)"),
 "C04": ("model_checking", "4.C04",
         "TLC enumerates all short rows over 1-byte, 2-byte and double-width labels on the text-merge model with "
         "RefTextRuns as invariant, each behaviour is replayed into the code; random multi-row label/drawing "
         "mixtures are validated by the trace specification.",
         "TLA+ model checking + TLC replay + trace validation"),
 "C15": ("model_checking", "4.C15",
         "TLC checks on all short rows that the code's blanking mechanism equals the reference and keeps every "
         "outside character in its display column; for the code, (quoted, blanked) input pairs are recorded and "
         "TLC checks the input relation and elements(a) = elements(b) + the verbatim quoted texts; the whole-conversion "
         "model is run on the quoted inputs and compared with the code (drift).",
         "TLA+ model checking of the unquote stage + relational trace validation"),
 "C08": ("model_checking", "4.C08",
         "TLC checks the sink model (escaping function) for every string over one representative per character "
         "class; for the code, payloads with unique markers in every channel are converted and TLC evaluates "
         "VocabularyOnly and MarkerConfined on the expat-parsed document.",
         "TLA+ model checking of the serialisation sinks + trace validation of parsed documents"),
 "C02": ("exploration", "4.C02",
         "the sink model is model-checked by TLC; for the code a Unicode sweep in every channel x include_* x "
         "pretty/compressed is parsed by expat and TLC evaluates WellFormedDoc and the read-back of probe strings. "
         "Exploration level: well-formedness is decided by expat per observed document.",
         "Unicode sweep + expat + TLA+ acceptance predicates; TLA+ model of the escaping sinks"),
 "C05": ("model_checking", "4.C05",
         "completeness: the bounded box family is converted and TLC checks, per box, that the input is the claimed "
         "box and that the document is exactly the expected rect (position, size, radius, class) plus interior "
         "texts; soundness: RectSound is an invariant of the pipeline model on all small grids (TLC, replayed) and "
         "is evaluated on every rect of the box-mutation family, random grids and the mixed corpus.",
         "TLA+ model checking + TLC replay + trace validation (box oracle, RectSound) + stage-level trace validation"),
 "C13": ("model_checking", "4.C13",
         "TLC checks for all 22 catalogue entries x offsets that the circle given by the documented parameters "
         "satisfies the independent CircleOracle, each behaviour is replayed; the code's circles for 22 drawings x "
         "many placements (alone / with other content) are validated against CircleOracle by the trace spec.",
         "TLA+ model checking of the catalogue stage + TLC replay + trace validation (circle oracle)"),
 "C14": ("model_checking", "4.C14",
         "MC_Arrow and MC_Bullet run the arrow and bullet families through the glyph/merge model (polygons, circle "
         "fragments merged into marker lines) with the oracles as invariants and replay every behaviour; the arrow, "
         "bullet (horizontal and vertical) and rounded-corner families are converted and TLC checks the input is the "
         "claimed drawing and evaluates ArrowOracle / BulletOracle / CornerOracle in integer geometry.",
         "TLA+ model checking of the arrow/bullet glyph rules + TLC replay + trace validation against integer-geometry oracles"),
 "C16": ("model_checking", "4.C16",
         "TLC checks the enclosure model (deepest-first forest, scale-invariant fit) for all scenes of the family; "
         "the enclosure stage inside the whole-conversion model for every interior row of a box and of two nested boxes "
         "over a tag alphabet (MC_Tags, replayed with class names compared); legend and tag families are converted and "
         "TLC checks the input relation and RefLegend / RefTagClasses on the recorded documents; the whole-conversion "
         "model is run on those families and compared with the code.",
         "TLA+ model checking of the enclosure stage + trace validation (legend and tag oracles)"),
 "C18": ("model_checking", "4.C18",
         "TLC checks the Assemble model (order, switch independence, override); for the code every variant "
         "(entry points, compressed, 8 switch combinations, cosmetic settings, override sizes) is recorded and "
         "TLC checks SettingsVariant against the default conversion of the same input.",
         "TLA+ model checking of the assemble stage + relational trace validation"),
 "C01": ("exploration", "4.C01",
         "termination, absence of stuck states and the guards of the failure sites are checked by TLC on the "
         "pipeline model (liveness under weak fairness); for the code a hostile corpus goes through all five entry "
         "points in crash-isolated child processes and the trace specification accepts only Return within the "
         "polynomial envelope and with no growing pass. Exploration level: totality of the code is observed per input.",
         "TLA+ liveness checking of the pipeline model + crash-isolated exploration with a TLA+ acceptance spec"),
 "C07": ("model_checking", "4.C07",
         "Service.tla (threads, lazy tables with once semantics and the real dependency graph) is model-checked by "
         "TLC over all interleavings; executions of >= 8 fresh processes in different orders, warm repeats and "
         "1..16 racing threads are recorded (SHA-256 per call, lazy-init begin/end events) and validated by "
         "ServiceTrace, which infers canon[key] and rejects any differing observation.",
         "TLA+ model checking of the service/lazy-table model + trace validation of recorded multi-process/thread runs"),
 "C19": ("model_checking", "4.C19",
         "Cli.tla enumerates all option subsets x input modes x fault sets (TLC), checks the machine against the "
         "reference outcome functions and termination; CliBuild.tla models the batch mode (directory listed in any "
         "order, entries skipped / converted / failing) with one-document-per-file, no-collision and exit-iff-success "
         "invariants; every scenario of both machines is replayed against the real binary and the trace specification "
         "evaluates CliOK / BuildOK with the library's own conversion as reference.",
         "TLA+ model checking of the CLI protocol machine + TLC scenario replay against the binary + trace validation"),
 "C20": ("model_checking", "4.C20",
         "Server.tla (connection stages as separate actions, clients x request classes, all interleavings, liveness) is model-checked by TLC; one real server process "
         "is driven by a sequential and 16 concurrent clients with seeded request sequences and the trace "
         "specification evaluates ExchangeOK on every exchange, final probes and process liveness.",
         "TLA+ model checking of the server protocol machine + trace validation of recorded HTTP exchanges"),
}

POOLED = {"C01", "C02", "C05", "C06", "C07", "C08", "C09", "C10", "C11", "C12", "C15", "C16", "C17", "C18"}
DRESSED = {"C03", "C04", "C05", "C09", "C13", "C14", "C16"}
BUFFERED = {"C07", "C11", "C12"}


def main():
    ids = [json.loads(l)["id"] for l in open(os.path.join(ROOT, "properties.jsonl"))]
    try:
        commits = subprocess.run(["git", "-C", "/repo", "log", "--format=%h %s"], capture_output=True, text=True).stdout.split("\n")
        hooks = [c.split()[0] for c in commits if c.startswith(tuple("0123456789abcdef")) and "verif hooks:" in c]
    except Exception:
        hooks = []
    m = {
     "version": 1,
     "setup_cmd": "cd /verif && ./check setup",
     "hooks": {
        "guard": "verif-trace (cargo feature of crate svgbob)",
        "enable": "the harness depends on svgbob = { path = \"/repo/crates/svgbob\", features = [\"verif-trace\"] } (harness/Cargo.toml); every check rebuilds it from /repo's working tree",
        "baseline_off_cmd": "cd /repo && (cargo nextest run --workspace --no-fail-fast --offline || cargo test --workspace --no-fail-fast --offline)",
        "source_commits": hooks,
        "add_only": True},
     "engines": [
        {"name": "tlc", "path": "/verif/spec", "serves_properties": sorted(CHECKS), "kind_free_text": "TLA+ specification (Pipeline, Glyphs, Reference, Relations, shells) model-checked with TLC; trace specifications validate executions recorded from the real code"},
        {"name": "bobdrive", "path": "/verif/harness", "serves_properties": sorted(CHECKS), "kind_free_text": "Rust driver around the real library (feature verif-trace): batch conversions in crash-isolated child processes, thread races, table dumps"}],
     "checks": [], "not_applicable": [],
     "notes": "See DESIGN.md. ./check <id> --tier quick|thorough; exit 0 held / 1 VIOLATION / 2 tool error. known_findings.json lists recorded and fixed defects."}
    for pid in ids:
        if pid in CHECKS and pid in props.PLANS:
            cat, ref, text, tech = CHECKS[pid]
            if pid in POOLED:
                text += " Inputs also come from the shared pool of all checks' generators (verifpy/universe.json, DESIGN.md 9.7)."
            if pid in DRESSED:
                text += (" The oracle families are also converted in other dresses (CRLF, trailing blanks, a legend below, another "
                         "scale); the trace specification checks the dress and evaluates the same oracle (DocTrace!Dressed).")
            if pid == "C14":
                text += (" Every neighbourhood (up to two neighbours) of a bullet or arrowhead character goes through the glyph model; where "
                         "the specification attaches the bullet or ends a line in an arrowhead, the trace specification requires the marker "
                         "line / polygon in the real document (C14m), and the marker definitions the classes refer to are checked (BulletMarkersOK).")
            if pid == "C19":
                text += (" Faults on the model: missing file, input that is not text, unparsable number, unwritable output; options in every "
                         "spelling and order; exit status compared as zero / non-zero.")
            if pid == "C20":
                text += (" The model lets clients leave at any stage (orphan conversions give their thread back: NoThreadLost); the driver has "
                         "keep-alive connections, look-alike bodies in sequence, uploads that stall, clients that leave before their answer and "
                         "connections that are reset.")
            if pid in BUFFERED:
                text += (" Histories of one kept buffer object (render, write cells, render again at other scales) are validated "
                         "against Buffer.tla by BufferTrace.tla.")
                tech += " + trace validation of buffer-object histories (Buffer.tla)"
            m["checks"].append({
              "property_id": pid,
              "quick_cmd": "./check %s --tier quick" % pid,
              "thorough_cmd": "./check %s --tier thorough" % pid,
              "evidence_file": "/verif/evidence/%s.json" % pid,
              "replay_cmd_template": "./check %s --replay {path}" % pid,
              "engine": "tlc",
              "level_claimed": {"category": cat, "text": text, "design_ref": ref},
              "level_note": TRUST, "technique": tech})
        else:
            m["not_applicable"].append({"property_id": pid, "reason": "check not built yet in this session (planned with the TLA+ specification, DESIGN.md section 4); not claimed until its check exists"})
    json.dump(m, open(os.path.join(ROOT, "MANIFEST.json"), "w"), indent=1)
    print("MANIFEST.json: %d checks, %d not applicable" % (len(m["checks"]), len(m["not_applicable"])))

main()
