#!/usr/bin/env python3
"""tools/mkuniverse.py <recdir> : build verifpy/universe.json, the shared pool of inputs.

Every check, run with VERIF_RECORD=<recdir>/<Cxx>.ndjson, records each text it sends to the library together with the
family tag it was sent under (common.run_requests).  This tool draws a stratified sample over (check, family): the
families that a property's own generators produce become inputs of every other property whose quantifier admits them
(all "any input" predicates and all relational ones).  The pool is a committed, frozen file: checks stay deterministic and
independent of what was run before; the per-property generators keep following VERIF_SEED."""
import collections
import glob
import json
import os
import random
import sys

rec = sys.argv[1]
PER_FAMILY = int(sys.argv[2]) if len(sys.argv) > 2 else 160
MAXLEN = 1500          # characters; the large structured inputs stay with the checks that need them
r = random.Random(20261003)
fam = collections.defaultdict(list)
for f in sorted(glob.glob(os.path.join(rec, "C*.ndjson"))):
    seen = set()
    for line in open(f, encoding="utf-8"):
        d = json.loads(line)
        t = d["t"]
        if t in seen or len(t) > MAXLEN or not t.strip():
            continue
        seen.add(t)
        fam[d["tag"]].append(t)
out = []
seen = set()
for tag in sorted(fam):
    ts = fam[tag]
    # exhaustive small-grid replays (thousands of 6-cell grids) are thinned hard; everything else evenly
    n = PER_FAMILY * 4 if tag == "C01B" else PER_FAMILY // 4 if tag in ("C03A", "C05A", "C09A", "C12A", "C16F", "C12F", "stg", "lib") else PER_FAMILY
    # the longest few always (they hold the structured families), the rest at random
    ts_sorted = sorted(ts, key=len)
    pick = ts_sorted[-(n // 8):] + r.sample(ts, min(len(ts), n))
    for t in pick:
        if t not in seen:
            seen.add(t)
            out.append({"from": tag, "t": t})
r.shuffle(out)
dst = os.path.join(os.path.dirname(os.path.dirname(os.path.abspath(__file__))), "verifpy", "universe.json")
with open(dst, "w", encoding="utf-8") as f:
    json.dump(out, f, ensure_ascii=False, indent=0)
print("universe: %d inputs from %d families, %d bytes" % (len(out), len(fam), os.path.getsize(dst)))
