#!/bin/bash
# tools/confirm_seed.sh <PID> <A|B> : confirm a sub-agent's seeded change in its scratch worktree:
# applies the diff, builds, runs the existing test suite (must pass), runs the demonstration (must fail),
# reverts, runs the demonstration again (must pass).  Prints a verdict line.
P=$1; M=$2; W=/tmp/mut/$P; O=/tmp/mut/$P-out
cd $W || exit 2
git checkout -q -- . ; git clean -fdq crates
git apply --whitespace=nowarn $O/$M.diff || { echo "VERDICT $P-$M: diff does not apply"; exit 1; }
export CARGO_TARGET_DIR=$W/target
cp Cargo.lock /tmp/.lock.$P
T=$(cargo test --workspace --offline 2>&1 | grep -E "^test result" | awk '{p+=$4; f+=$6} END {print p" passed "f" failed"}')
run_demo() {
  if [ -f $O/${M}_demo.rs ]; then
    cp $O/${M}_demo.rs crates/svgbob/tests/zz_seed_demo.rs
    cargo test --offline -p svgbob --test zz_seed_demo >/tmp/.demo.$P 2>&1; rc=$?
    rm -f crates/svgbob/tests/zz_seed_demo.rs
  else
    bash $O/${M}_demo.sh >/tmp/.demo.$P 2>&1; rc=$?
  fi
  return $rc
}
run_demo; WITH=$?
git checkout -q -- . ; cp /tmp/.lock.$P Cargo.lock
run_demo; WITHOUT=$?
git checkout -q -- . ; cp /tmp/.lock.$P Cargo.lock; git clean -fdq crates
echo "VERDICT $P-$M: tests[$T] demo_with_change_rc=$WITH demo_without_rc=$WITHOUT"
