#!/usr/bin/env python3
"""tools/adopt_seed.py <PID> <A|B> <verdict line> -- <Cxx> ...  : copy a confirmed seeded change into
/verif/seeded/<PID>-<M>/ and run the named checks against it (via tools/mutant.py)."""
import json, os, shutil, subprocess, sys
pid, m = sys.argv[1], sys.argv[2]
verdict = sys.argv[3]
props = sys.argv[sys.argv.index("--") + 1:]
src = "/tmp/mut/%s-out" % pid
dst = "/verif/seeded/%s-%s%s" % (pid, m, os.environ.get("SEED_SUFFIX", ""))
os.makedirs(dst, exist_ok=True)
shutil.copy(os.path.join(src, m + ".diff"), os.path.join(dst, "patch.diff"))
for ext in ("rs", "sh"):
    f = os.path.join(src, "%s_demo.%s" % (m, ext))
    if os.path.exists(f):
        shutil.copy(f, os.path.join(dst, "demo." + ext))
notes = open(os.path.join(src, m + ".md")).read() if os.path.exists(os.path.join(src, m + ".md")) else ""
# SEED_ISO=1: run against a scratch copy (tools/mutant_iso.py) instead of /repo's working tree
tool = "/verif/tools/mutant_iso.py" if os.environ.get("SEED_ISO") else "/verif/tools/mutant.py"
r = subprocess.run([sys.executable, tool, os.path.join(dst, "patch.diff")] + props, capture_output=True, text=True)
print(r.stdout[-2000:])
lines = [l for l in r.stdout.split("\n") if l[:3] in props or l.split(" ")[0] in props]
meta = {"breaks_property": pid, "origin": "fresh sub-agent given only the property text and a scratch worktree",
        "needs_to_manifest": notes.strip()[:1500],
        "confirmed": verdict,
        "confirmation_cmd": "tools/confirm_seed.sh %s %s (scratch worktree: apply, cargo test --workspace --offline, demo with / without)" % (pid, m),
        "checks_run": lines}
json.dump(meta, open(os.path.join(dst, "meta.json"), "w"), indent=1)
