"""Per-check bookkeeping: model runs, replays, trace validation, verdicts, evidence."""
import json
import os
import time
from collections import Counter

from . import common, gen, observe


class Run:
    def __init__(self, prop, tier, level="model_checking"):
        self.prop = prop
        self.tier = tier
        self.level = level
        self.t0 = time.time()
        self.states = 0
        self.transitions = 0
        self.model_runs = []          # (module, cfg, states, distinct, wall)
        self.replayed = 0             # TLC behaviours replayed into the code
        self.drift = 0                # behaviours where mechanism model and code differ
        self.drift_samples = []
        self.events = []              # events for the trace spec
        self.event_meta = []          # python-side info per event (input text, case ...)
        self.validated = 0
        self.nontrivial = 0
        self.violations = []          # records
        self.known = []               # (finding, record)
        self.samples = []
        self.notes = {}
        self.assumptions = []
        self.rule = ""
        self.exhaustive = False
        self.extra_nontrivial = 0
        import shutil
        shutil.rmtree(os.path.join(common.REPLAYS, prop), ignore_errors=True)

    # ---- model checking --------------------------------------------------------------
    def model(self, module, cfg, workers=None, simulate=None, timeout=3600, xmx="8g", expect_violation=False, env=None):
        r = common.run_tlc(module, cfg, workers=workers or common.NCPU, timeout=timeout, xmx=xmx, simulate=simulate, env=env)
        self.model_runs.append({"module": module, "cfg": cfg, "generated": r["states"], "distinct": r["distinct"],
                                "wall_s": round(r["wall"], 1)})
        self.states += r["distinct"]
        self.transitions += r["states"]
        common.log("[tlc] %s/%s: %d distinct, %d generated, %.1fs%s" % (
            module, cfg, r["distinct"], r["states"], r["wall"],
            " VIOLATION " + str(r["violation"]) if r["violation"] else ""))
        if r["violation"] and not expect_violation:
            # the design itself breaks an invariant: that is a defect of the specification or
            # of the design, reported as a tool-level failure of this check (never silently)
            common.log("\n".join(r["lines"][-60:]))
            raise common.ToolError("model %s/%s violates %s" % (module, cfg, r["violation"]))
        return r

    # ---- events -----------------------------------------------------------------------
    def add_event(self, ev, meta):
        self.events.append(ev)
        self.event_meta.append(meta)
        return len(self.events) - 1

    def validate(self, module="DocTrace", cfg="DocTrace.cfg", shard=3000):
        if not self.events:
            return
        res = common.validate_trace(self.events, module=module, cfg=cfg, shard=shard, tag=self.prop)
        self.validated += res["events"]
        self.nontrivial += res["nontrivial"]
        self.states += res["states"]
        self.transitions += res["transitions"]
        byidx = {}
        for idx, pred in res["bad"]:
            byidx.setdefault(idx, set()).add(pred)
        for idx in sorted(byidx):
            for pred, cause in self.classify(byidx[idx]):
                meta = self.event_meta[idx]
                rec = {"property": self.prop, "predicate": pred, "cause": cause, "tier": self.tier,
                       "seed": common.seed()}
                rec.update(meta)
                rec["event"] = self.events[idx]
                self.violation(rec)
        common.log("[trace] %s: %d events validated, %d bad, %d non-trivial" % (
            self.prop, res["events"], len(res["bad"]), res["nontrivial"]))
        self.events = []
        self.event_meta = []

    def classify(self, preds):
        """failing predicates of one event -> [(predicate, cause)] to report"""
        return [(p, None) for p in sorted(preds)]

    def violation(self, rec):
        f = common.match_finding(self.prop, rec)
        if f is not None:
            self.known.append((f, rec))
        else:
            self.violations.append(rec)

    # ---- finishing --------------------------------------------------------------------
    def finish(self):
        seen_known = set()
        for f, rec in self.known:
            if f["id"] not in seen_known:
                seen_known.add(f["id"])
                print("KNOWN-FINDING: property=%s %s" % (self.prop, f["what"]))
        paths = []
        for rec in self.violations[:50]:
            path = common.write_replay(self.prop, rec)
            paths.append(path)
            print("VIOLATION property=%s replay=%s" % (self.prop, path))
        if len(self.violations) > 50:
            print("... %d more violations not written out" % (len(self.violations) - 50))
        wall = time.time() - self.t0
        cov = {
            "states": self.states, "transitions": self.transitions,
            "traces_validated_against_impl": self.validated,
            "samples": self.samples[:6] or ["(no sample recorded)"],
            "evaluations": self.validated,
            "distinct_nontrivial": self.nontrivial + self.extra_nontrivial,
            "rule": self.rule,
            "exhaustive": self.exhaustive,
            "model_runs": self.model_runs,
            "behaviours_replayed": self.replayed,
            "events_validated": self.validated,
            "drift": self.drift, "drift_samples": self.drift_samples[:5],
            "known_findings_hit": sorted(seen_known),
        }
        cov.update(self.notes)
        if self.level != "model_checking":
            cov.pop("states"); cov.pop("transitions"); cov.pop("traces_validated_against_impl")
            cov["tlc_states"] = self.states
        common.write_evidence(self.prop, self.tier, self.level, cov, wall, len(self.violations), self.assumptions)
        common.log("[done] %s %s: %d violations, %d known-finding hits, %.1fs" % (
            self.prop, self.tier, len(self.violations), len(self.known), wall))
        return 1 if self.violations else 0


# ---- helpers shared by the property plans -------------------------------------------------

def real_tuples(doc):
    """real abstract document -> multiset of tuples in the shape of PipelineOps!Strip (+ grouped flag)"""
    out = []
    for e in doc.get("elems", []):
        n = e["n"]
        g = 1 if e.get("g", 0) > 0 else 0
        if any(v % 1000 for v in n) and e["k"] != "polygon":
            out.append(("inexact", e["k"], tuple(n)))
            continue
        # (a polygon's numbers are taken to the lattice unit below: the filled box of '#' has vertices at +-2.8 units,
        # the one non-dyadic constant of the glyph tables; Glyphs.tla records it the same way)
        u = [v // 1000 for v in n]
        br = 1 if "broken" in e["cls"] else 0
        if e["k"] == "line":
            mk = sorted(c for c in e["cls"] if "marked" in c)
            out.append(("line", u[0], u[1], u[2], u[3], br, ",".join(mk), g))
        elif e["k"] == "rect":
            out.append(("rect", u[0], u[1], u[2], u[3], u[4], br, 1 if "filled" in e["cls"] else 0, g))
        elif e["k"] == "path":
            out.append(("path", u[0], u[1], u[2], e["fl"][2] if len(e["fl"]) == 3 else -1, u[4], u[5],
                        e["fl"][1] if len(e["fl"]) == 3 else -1, g))
        elif e["k"] == "text":
            out.append(("text", u[0], u[1], tuple(e["s"]), g))
        elif e["k"] == "circle":
            out.append(("circle", u[0], u[1], u[2], 1 if "filled" in e["cls"] else 0, g))
        else:
            out.append((e["k"],) + tuple(u) + (g,))
    return Counter(out)


def model_tuples(out):
    res = []
    for t in out:
        if t[0] == "text":
            res.append(("text", t[1], t[2], tuple(t[3]), t[4]))
        else:
            res.append(tuple(t))
    return Counter(res)


def rows_text(rows):
    return "\n".join("".join(chr(c) for c in r) for r in rows)
