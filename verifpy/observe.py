"""Run inputs through the real library and project the results to abstract documents."""
from concurrent.futures import ProcessPoolExecutor

from . import common, gen
from .project import project


def _proj(args):
    svg, scale, want_style = args
    return project(svg, scale, want_style)


def observe(cases, tag="obs", stages=False):
    """cases: list of dicts {input, entry?, settings?, w?, h?, want_style?}.  Returns a list of
    observations aligned with cases: {input, rows, doc, out, svg, us, work, stages}"""
    reqs = []
    for i, c in enumerate(cases):
        r = {"id": i, "input": c["input"], "entry": c.get("entry", "to_svg"), "stages": stages}
        if "settings" in c:
            r["settings"] = c["settings"]
        if "w" in c:
            r["w"], r["h"] = c["w"], c["h"]
        reqs.append(r)
    resp = common.run_requests(reqs, tag=tag)
    jobs = []
    for i, c in enumerate(cases):
        rs = resp[i]
        scale = c.get("settings", {}).get("scale", 8.0) if c.get("entry", "to_svg") in ("settings", "override") else 8.0
        jobs.append((rs.get("svg", ""), scale, c.get("want_style", False)) if rs.get("ok") else None)
    docs = [None] * len(cases)
    idx = [i for i, j in enumerate(jobs) if j is not None]
    if len(idx) > 200:
        with ProcessPoolExecutor(max_workers=common.NCPU) as ex:
            for i, d in zip(idx, ex.map(_proj, [jobs[i] for i in idx], chunksize=64)):
                docs[i] = d
    else:
        for i in idx:
            docs[i] = _proj(jobs[i])
    obs = []
    for i, c in enumerate(cases):
        rs = resp[i]
        out = common.outcome(rs)
        doc = docs[i] if docs[i] is not None else {"wf": 0, "error": out, "elems": [], "w": 0, "h": 0}
        obs.append({"input": c["input"], "rows": gen.rows_of(c["input"]), "doc": doc, "out": out,
                    "svg": rs.get("svg"), "us": rs.get("us", 0), "work": rs.get("work"),
                    "stages": rs.get("stages", []), "panic": rs.get("panic"), "case": c})
    return obs
