"""Process-level drivers for the two shells: the CLI (C19) and the HTTP server (C20)."""
import hashlib
import http.client
import os
import shutil
import socket
import subprocess
import time

from . import common, gen


def sha(b):
    return hashlib.sha256(b).hexdigest()


COLORS = ["red", "#00ff00", "rgb(1,2,3)", "blue", "none", "transparent", "hsl(10,20%,30%)", " red", "blue ", "  #abc  "]   # values are taken verbatim
FONTS = ["Arial", "monospace", "Fira Code, monospace", "Times New Roman", " Arial", "serif "]


def option_values(r, opts, fault):
    """random values for the options of a scenario: (argv fragment, settings dict for the library)"""
    argv, st = [], {}
    bad = None
    if "bad_number" in fault:
        bad = r.choice(sorted(set(opts) & {"font-size", "stroke-width", "scale"}))
    for o in sorted(opts):
        if o in ("o", "s"):
            continue
        if o in ("background", "fill-color", "stroke-color"):
            v = r.choice(COLORS)
            st[{"background": "background", "fill-color": "fill_color", "stroke-color": "stroke_color"}[o]] = v
        elif o == "font-family":
            v = r.choice(FONTS)
            st["font_family"] = v
        elif o == "font-size":
            n = r.randint(1, 72)
            v = str(n)
            st["font_size"] = n
            if bad == o:
                v = r.choice(["abc", "-3", "1.5", "", "12px", " 12", "12 ", "\t7"])
        elif o == "stroke-width":
            x = r.choice([0.5, 1.0, 1.25, 2.0, 3.75, 10.0])
            v = repr(x)
            st["stroke_width"] = x
            if bad == o:
                v = r.choice(["wide", "1,5", "2px", "", " 2", "2.5 "])
        else:
            x = r.choice([0.5, 1.0, 1.5, 2.0, 4.5])
            v = repr(x)
            st["scale"] = 8.0 * x
            if bad == o:
                v = r.choice(["big", "1x", "", "2,0", "2 ", " 1.5"])
        argv += ["--" + o, v]
    return argv, st


def run_cli(cli, r, scen, text, lib_convert, workdir, idx):
    """materialise one scenario, run the real binary; returns (sc, ob, info)"""
    d = os.path.join(workdir, "c%d" % idx)
    os.makedirs(d, exist_ok=True)
    opts, inmode, fault = scen["opts"], scen["inmode"], scen["fault"]
    argv, st = option_values(r, opts, fault)
    # the same options in the other spellings the tool accepts: --name=value, and in any order
    pairs = [argv[i:i + 2] for i in range(0, len(argv), 2)]
    r.shuffle(pairs)
    argv = []
    for nm, v in pairs:
        # (a value that begins with '-' is written --name=value: as a separate word the argument parser takes it for an option)
        argv += [nm + "=" + v] if ((r.random() < 0.4 and v != "") or v.startswith("-")) else [nm, v]
    stdin = None
    if inmode != "inline" and r.random() < 0.25:
        # a backslash followed by the letter n is two ordinary characters in a file and on the standard input (only the
        # inline argument spells a line break that way): such a pair somewhere in the text (seed C19-A13)
        cut = r.randrange(len(text) + 1)
        text = text[:cut] + r.choice(["\\n", "a\\nb", "\\n\\n"]) + text[cut:]
    raw = text.encode("utf-8")
    if "bad_utf8" in fault:
        # input that is not text: a conversion cannot succeed
        cut = r.randrange(len(raw) + 1)
        raw = raw[:cut] + r.choice([b"\xff", b"\xc3", b"\xed\xa0\x80", b"\x80abc"]) + raw[cut:]
    positional = []
    if inmode == "file":
        path = os.path.join(d, "in.bob")
        if "missing_file" in fault:
            path = os.path.join(d, "does-not-exist.bob")
        elif r.random() < 0.12:
            # a file argument that is not a regular file (its size is not known beforehand): the standard input by its path
            path = "/dev/stdin"
            stdin = raw
        else:
            with open(path, "wb") as f:
                f.write(raw)
        positional = [path]
    elif inmode == "inline":
        positional = ["-s", text.replace("\n", "\\n")]
    else:
        stdin = raw
    # the input argument before, between or after the options
    if r.random() < 0.5:
        argv = positional + argv
    else:
        argv = argv + positional
    outpath = None
    pre_sha = ""
    if "o" in opts:
        outpath = os.path.join(d, "out.svg")
        if "unwritable" in fault:
            outpath = os.path.join(d, "no-such-dir", "out.svg")
            if os.path.exists("/dev/full") and r.random() < 0.4:
                outpath = "/dev/full"          # can be opened, cannot be written: every write fails (no space left on device)
        elif r.random() < 0.5:
            # the output file already exists and is longer than the document: "-o" replaces it
            with open(outpath, "wb") as f:
                f.write(b"<!-- stale output -->\n" * 2000)
            pre_sha = sha(b"<!-- stale output -->\n" * 2000)
        argv += r.choice([["-o", outpath], ["--output", outpath], ["--output=" + outpath], ["-o" + outpath]])
    p = subprocess.run([cli] + argv, input=stdin if stdin is not None else b"", stdout=subprocess.PIPE,
                       stderr=subprocess.PIPE, timeout=900)
    lib = lib_convert(text, st).encode("utf-8")
    file_exists = 1 if (outpath and outpath != "/dev/full" and os.path.exists(outpath)) else 0      # (a device is not an output file)
    file_sha = ""
    if file_exists:
        with open(outpath, "rb") as f:
            file_sha = sha(f.read())
    ob = {"exit": p.returncode, "stdout_sha": sha(p.stdout), "stdout_len": len(p.stdout), "stderr_len": len(p.stderr),
          "file_exists": file_exists, "file_sha": file_sha, "pre_sha": pre_sha, "lib_sha": sha(lib), "lib_nl_sha": sha(lib + b"\n")}
    shutil.rmtree(d, ignore_errors=True)
    return ob, {"argv": argv, "settings": st, "text_sent": text, "stdout_head": p.stdout[:200].decode("utf-8", "replace"),
                "stderr": p.stderr[:200].decode("utf-8", "replace")}


def run_build(cli, r, texts, lib_convert, workdir, idx):
    d = os.path.join(workdir, "b%d" % idx)
    src = os.path.join(d, "src")
    os.makedirs(src, exist_ok=True)
    nmatch = r.randint(0, 4)
    names = []
    for i in range(nmatch):
        # stems with blanks, non-ASCII letters, and dots (two inputs that differ only after a dot must not collide)
        nm = r.choice(["d%d_a", "d%d_fig", "d%d_x y", "d%d_über", "net.v%d", "fig.1.%d", "a.b.c%d", "d%d."]) % i
        names.append(nm)
        if i == 1 and r.random() < 0.5:
            # a matching file that is a symbolic link to a regular file elsewhere (a file like any other for `build`)
            os.makedirs(os.path.join(d, "store"), exist_ok=True)
            real = os.path.join(d, "store", "real%d.txt" % i)
            with open(real, "w", encoding="utf-8") as f:
                f.write(texts[i % len(texts)])
            os.symlink(real if r.random() < 0.5 else os.path.join("..", "store", "real%d.txt" % i), os.path.join(src, nm + ".bob"))
            continue
        with open(os.path.join(src, nm + ".bob"), "w", encoding="utf-8") as f:
            f.write(texts[i % len(texts)])
    for i in range(r.randint(0, 2)):
        with open(os.path.join(src, "other%d.txt" % i), "w") as f:
            f.write("+--+\n")
    missing = 1 if r.random() < 0.2 else 0
    use_out = r.random() < 0.6
    outdir = os.path.join(d, "out", "svg") if use_out else src
    pattern = os.path.join(src if not missing else os.path.join(d, "nope"), "*.bob")
    cwd = None
    if r.random() < 0.5:
        # relative paths, resolved against the current directory: input pattern in a sub-directory, -o beside it
        cwd = d
        pattern = os.path.join("src" if not missing else "nope", "*.bob")
        if use_out:
            outdir = os.path.join(d, "out_rel")
    if use_out and not missing and names and r.random() < 0.4:
        # left-over outputs of an earlier run (newer than the sources): they must be replaced
        os.makedirs(outdir, exist_ok=True)
        for nm in names[:2]:
            with open(os.path.join(outdir, nm + ".svg"), "w") as f:
                f.write("<svg>stale</svg>")
    argv = ["build", "-i", pattern] + (["-o", (os.path.relpath(outdir, d) if cwd else outdir)] if use_out else [])
    p = subprocess.run([cli] + argv, stdout=subprocess.PIPE, stderr=subprocess.PIPE, timeout=900, cwd=cwd)
    written = []
    if os.path.isdir(outdir):
        written = [f for f in os.listdir(outdir) if f.endswith(".svg")]
    correct = 0
    for i, nm in enumerate(names):
        pth = os.path.join(outdir, nm + ".svg")
        if os.path.exists(pth):
            with open(pth, "rb") as f:
                if f.read() == lib_convert(texts[i % len(texts)], {}).encode("utf-8"):
                    correct += 1
    extra = len([f for f in written if f[:-4] not in names])
    ob = {"exit": p.returncode, "n_written": len(written), "n_correct": correct, "n_extra": extra,
          "diag_len": len(p.stdout) + len(p.stderr)}
    b = {"missing_dir": missing, "n_matching": 0 if missing else nmatch, "n_blocked": 0}
    shutil.rmtree(d, ignore_errors=True)
    return b, ob, {"argv": argv, "stdout": p.stdout[:300].decode("utf-8", "replace")}


def run_build_scenario(cli, r, sc, texts, lib_convert, workdir, idx):
    """one scenario of CliBuild.tla against the real binary: the directory is laid out as the scenario says (entries
    [stem, ext, blocked]; blocked = the output path <stem>.svg is taken by a directory), `build` runs, and what was
    written is compared with the model's outcome and with the library's conversions"""
    d = os.path.join(workdir, "s%d" % idx)
    src, outdir = os.path.join(d, "src"), os.path.join(d, "out")
    os.makedirs(d, exist_ok=True)
    content = {}
    if sc["exists"]:
        os.makedirs(src, exist_ok=True)
        os.makedirs(outdir, exist_ok=True)
        for j, e in enumerate(sc["entries"]):
            t = texts[(idx + j) % len(texts)]
            with open(os.path.join(src, e["stem"] + "." + e["ext"]), "w", encoding="utf-8") as f:
                f.write(t)
            if e["ext"] == "bob":
                content[e["stem"]] = t
                if e["blocked"]:
                    os.makedirs(os.path.join(outdir, e["stem"] + ".svg"), exist_ok=True)
                elif r.random() < 0.3:
                    # a left-over output from an earlier run, newer than the source: it must be replaced
                    with open(os.path.join(outdir, e["stem"] + ".svg"), "w") as f:
                        f.write("<svg>stale</svg>")
    relative = r.random() < 0.5
    argv = ["build", "-i", os.path.join("src" if relative else src, "*.bob"), "-o", "out" if relative else outdir]
    p = subprocess.run([cli] + argv, stdout=subprocess.PIPE, stderr=subprocess.PIPE, timeout=900, cwd=d)
    written = sorted(f for f in os.listdir(outdir) if os.path.isfile(os.path.join(outdir, f))) if os.path.isdir(outdir) else []
    correct = 0
    for f in written:
        stem = f[:-4] if f.endswith(".svg") else None
        if stem in content:
            with open(os.path.join(outdir, f), "rb") as fh:
                if fh.read() == lib_convert(content[stem], {}).encode("utf-8"):
                    correct += 1
    matching = [e for e in sc["entries"] if e["ext"] == "bob"]
    ob = {"exit": p.returncode, "n_written": len(written), "n_correct": correct,
          "n_extra": len([f for f in written if f not in sc["written"]]), "diag_len": len(p.stdout) + len(p.stderr)}
    b = {"missing_dir": 0 if sc["exists"] else 1, "n_matching": len(matching), "n_blocked": len([e for e in matching if e["blocked"]])}
    same = (p.returncode == sc["exit"] and written == sorted(sc["written"]))
    shutil.rmtree(d, ignore_errors=True)
    return b, ob, {"argv": argv, "stdout": p.stdout[:300].decode("utf-8", "replace"), "written": written}, same


# ---------------------------------------------------------------------------------------------
def free_port():
    s = socket.socket()
    s.bind(("127.0.0.1", 0))
    port = s.getsockname()[1]
    s.close()
    return port


class Server:
    def __init__(self, binary):
        self.binary = binary
        self.proc = None
        self.port = None

    def start(self):
        for _ in range(5):
            self.port = free_port()
            env = dict(os.environ)
            env["PORT"] = str(self.port)
            self.proc = subprocess.Popen([self.binary], env=env, stdout=subprocess.DEVNULL, stderr=subprocess.DEVNULL)
            for _ in range(100):
                if self.proc.poll() is not None:
                    break
                try:
                    c = socket.create_connection(("127.0.0.1", self.port), timeout=0.2)
                    c.close()
                    return
                except OSError:
                    time.sleep(0.05)
            self.stop()
        raise common.ToolError("svgbob_server did not start")

    def alive(self):
        return self.proc is not None and self.proc.poll() is None

    def stop(self):
        if self.proc is not None:
            try:
                self.proc.kill()
                self.proc.wait(timeout=5)
            except Exception:
                pass
            self.proc = None


def http_request(port, method, path, body=None, timeout=120):
    """returns (status or 0 when the connection was closed without a response, body bytes)"""
    try:
        c = http.client.HTTPConnection("127.0.0.1", port, timeout=timeout)
        c.request(method, path, body=body, headers={"Content-Type": "text/plain"} if body is not None else {})
        r = c.getresponse()
        data = r.read()
        c.close()
        return r.status, data
    except (OSError, http.client.HTTPException):
        return 0, b""


def split_post(port, raw, cut, timeout=120):
    """POST / with a Content-Length body written in two pieces (cut inside a multi-byte character), a pause in between"""
    try:
        s = socket.create_connection(("127.0.0.1", port), timeout=timeout)
        s.settimeout(timeout)
        head = ("POST / HTTP/1.1\r\nHost: 127.0.0.1\r\nContent-Length: %d\r\nConnection: close\r\n\r\n" % len(raw)).encode()
        s.sendall(head + raw[:cut])
        time.sleep(0.05)
        s.sendall(raw[cut:])
        data = b""
        while True:
            part = s.recv(65536)
            if not part:
                break
            data += part
        s.close()
        headb, _, body = data.partition(b"\r\n\r\n")
        status = int(headb.split(b" ", 2)[1]) if headb.startswith(b"HTTP/") else 0
        if b"transfer-encoding: chunked" in headb.lower():
            out, rest = b"", body
            while rest:
                line, _, rest = rest.partition(b"\r\n")
                n = int(line.split(b";")[0] or b"0", 16)
                if n == 0:
                    break
                out += rest[:n]
                rest = rest[n + 2:]
            body = out
        return status, body
    except (OSError, ValueError, IndexError):
        return 0, b""


def raw_request(port, payload, timeout=5):
    try:
        s = socket.create_connection(("127.0.0.1", port), timeout=timeout)
        s.sendall(payload)
        s.settimeout(timeout)
        data = b""
        try:
            while len(data) < 65536:
                chunk = s.recv(4096)
                if not chunk:
                    break
                data += chunk
                if b"\r\n\r\n" in data:
                    break
        except OSError:
            pass
        s.close()
        if data.startswith(b"HTTP/1."):
            try:
                return int(data.split(b" ")[1]), data
            except (IndexError, ValueError):
                return 0, data
        return 0, data
    except OSError:
        return 0, b""
