"""Per-property plans (DESIGN.md section 4)."""
import os
import time

from . import common, gen, observe
from collections import Counter
from .runner import Run, real_tuples, model_tuples, rows_text


def write_cfg(name, constants, invariants, init="MCInit", next_="Next", extra=""):
    path = os.path.join(common.rundir(), name + ".cfg")
    with open(path, "w") as f:
        f.write("CONSTANTS\n")
        for k, v in constants.items():
            f.write("  %s = %s\n" % (k, v))
        f.write("INIT %s\nNEXT %s\n" % (init, next_))
        if invariants:
            f.write("INVARIANTS " + " ".join(invariants) + "\n")
        f.write("CHECK_DEADLOCK FALSE\n" + extra)
    return path


def tla_set(codes):
    return "{" + ", ".join(str(c) for c in codes) + "}"


def replay_models(run, results, props, entry="to_svg", keep_all=True):
    """binding (A): replay TLC REPLAY behaviours into the real library; compare abstract
    documents as multisets (difference = drift, not a verdict); every real observation becomes
    an event for the trace specification, which evaluates the property on it"""
    behaviours = []
    for r in results:
        behaviours += common.tla_json_strings(r["lines"], "REPLAY")
    texts = [rows_text(b["rows"]) for b in behaviours]
    obs = observe.observe([{"input": t, "entry": entry} for t in texts], tag=run.prop + "A")
    for b, t, o in zip(behaviours, texts, obs):
        run.replayed += 1
        if o["out"] != "return" or real_tuples(o["doc"]) != model_tuples(b["out"]):
            run.drift += 1
            if len(run.drift_samples) < 5:
                run.drift_samples.append({"input": t, "model": b["out"],
                                          "real": sorted(map(list, real_tuples(o["doc"]).elements()), key=str)})
        run.add_event({"props": props, "rows": o["rows"], "doc": o["doc"]},
                      {"input": t, "entry": entry, "source": "tlc-replay"})
    if behaviours and not run.samples:
        run.samples.append({"input": texts[len(texts) // 2], "model_out": behaviours[len(texts) // 2]["out"]})
    return len(behaviours)


def observe_events(run, texts, props, source, entry="to_svg", settings=None, extra=None):
    cases = []
    for t in texts:
        c = {"input": t, "entry": entry}
        if settings:
            c["settings"] = settings
        cases.append(c)
    obs = observe.observe(cases, tag=run.prop + "B")
    for t, o in zip(texts, obs):
        ev = {"props": props, "rows": o["rows"], "doc": o["doc"]}
        if extra:
            ev.update(extra)
        run.add_event(ev, {"input": t, "entry": entry, "source": source})
    return obs


# ------------------------------------------------------------------------------------------
A1 = [32, 45, 124, 43]


def c03(tier):
    run = Run("C03", tier)
    run.rule = ("TLC enumerates every grid of the listed sizes over {space,-,|,+} (and one label); each is "
                "replayed into the real library and the recorded document is checked by the trace spec "
                "against RefStrokes/TextsExact; plus seeded random grids up to 14x8 grids of boxes nested two to four deep with random content, buses with taps and random-walk paths. Non-trivial = the grid "
                "denotes at least one stroke; events are de-duplicated by input text.")
    sizes = [(3, 2, A1 + [97]), (2, 3, A1 + [97]), (1, 6, A1), (6, 1, A1)]
    nrandom = 6000
    if tier == "thorough":
        sizes += [(2, 4, A1), (4, 2, A1), (1, 8, A1), (8, 1, A1), (3, 3, A1), (3, 3, A1 + [97])]
        nrandom = 100000
    results = []
    for w, h, alpha in sizes:
        cfg = write_cfg("MC_C03_%dx%d_%d" % (w, h, len(alpha)), {"W": w, "H": h, "Alphabet": tla_set(alpha)},
                        ["ModelC03", "SpansPartitionCells", "MergeFixpoint", "Emit"])
        results.append(run.model("MC_C03", cfg))
        replay_models(run, results[-1:], ["C03"])
        run.validate()
    run.exhaustive = True
    r = common.rng("C03")
    texts = []
    for i in range(nrandom):
        w, h = r.randint(1, 14), r.randint(1, 8)
        if i % 3 == 0:
            w, h = r.randint(2, 6), r.randint(4, 8)      # narrow and tall: spans that meet again further down
        dens = r.choice([0.2, 0.4, 0.7])
        alpha = "-|+" if i % 2 == 0 else "-|+" + r.choice(gen.LABELS) + r.choice(gen.LABELS)
        texts.append(gen.random_grid(r, w, h, alpha, dens))
    # structure the random grids hardly ever produce: boxes nested two to four deep with random content inside
    for i in range(nrandom // 6):
        texts.append(gen.nested_grid(r, "-|+" if i % 2 == 0 else "-|+" + r.choice(gen.LABELS) + r.choice(gen.LABELS)))
    # buses with taps and long thin paths: cells met in an order unrelated to how they are connected, so that the
    # greedy grouping needs several passes
    for i in range(nrandom // 6):
        texts.append(gen.comb_grid(r) if i % 2 == 0 else (gen.walk_grid(r) if i % 4 == 1 else gen.hatch_grid(r, diag="+")))
    # boxes whose walls are crossed or left by strokes
    for i in range(nrandom // 6):
        texts.append(gen.box_with_crossings(r))
    # rails with bars between them: boxes and everything next to a box (bars not under the corners, rails that differ)
    for i in range(nrandom // 6):
        texts.append(gen.rail_grid(r))
    # the statement's alphabet, and nothing else (a generator that strays outside it must not turn into an alarm)
    allowed = set("-|+ \n" + gen.LABELS)
    stray = [t for t in texts if not set(t) <= allowed]
    run.notes["inputs_outside_the_alphabet_dropped"] = len(stray)
    texts = gen.dedup([t for t in texts if set(t) <= allowed])
    observe_events(run, texts, ["C03"], "random-grid")
    dressed_events(run, r, [(t, {"props": ["C03"]}, {"source": "random-grid, dressed"}) for t in texts], 6, "C03D")
    run.samples.append({"input": texts[0]})
    run.validate()
    from . import stages
    stages.conformance(run, texts[:1500] if tier == "quick" else texts[:30000])
    run.assumptions = ["expat and the projection (verifpy/project.py) are trusted",
                       "TLC's evaluation of Reference!C03_OK is trusted",
                       "the guarantee about the code is per observed execution (bounded-exhaustive families + samples)"]
    return run.finish()


PLANS = {"C03": c03}


# ------------------------------------------------------------------------------------------
import unicodedata


def wid_rows(rows):
    """display width annotation from an independent source (python unicodedata)"""
    out = []
    for r in rows:
        o = []
        for c in r:
            ch = chr(c)
            if unicodedata.east_asian_width(ch) in ("W", "F"):
                o.append(2)
            elif unicodedata.category(ch) in ("Mn", "Me", "Cf") or c == 0x200B:
                o.append(0)
            else:
                o.append(1)
        out.append(o)
    return out


def common_wide(ch):
    c = ord(ch)
    return (4352 <= c <= 4447 or 11904 <= c <= 12350 or 12353 <= c <= 13311 or 13312 <= c <= 19903 or 19968 <= c <= 42191
            or 44032 <= c <= 55203 or 63744 <= c <= 64255 or 65072 <= c <= 65135 or 65281 <= c <= 65376 or 65504 <= c <= 65510
            or 131072 <= c <= 262141)          # the same blocks as Chars!WideCp


def narrow(text):
    return all(w == 1 for r in wid_rows(gen.rows_of(text)) for w in r)


def std_assumptions():
    return ["expat and the projection (verifpy/project.py) are trusted",
            "TLC's evaluation of the trace specification is trusted",
            "the guarantee about the code is per observed execution"]


def rel_events(run, groups, prop):
    """groups: list of lists of (case, rel or None); first of each group is a base (no rel)"""
    cases = [c for g in groups for (c, _) in g]
    obs = observe.observe(cases, tag=run.prop + "R")
    i = 0
    for g in groups:
        for (c, rel) in g:
            o = obs[i]
            i += 1
            ev = {"props": [prop] if rel else [], "rows": o["rows"], "doc": o["doc"]}
            if rel:
                ev["rel"] = rel
            if c.get("wid"):
                ev["wid"] = wid_rows(o["rows"])
            base = g[0][0]
            run.add_event(ev, {"input": c["input"], "entry": c.get("entry", "to_svg"),
                               "settings": c.get("settings"), "rel": rel, "source": c.get("source", ""),
                               "bases": [{k: v for k, v in base.items() if k != "wid"}] if rel else None})
    return obs


def c06(tier):
    run = Run("C06", tier)
    n = 1000 if tier == "quick" else 150000
    run.rule = ("pairs (base, shifted) of legend-free inputs: random grids over the full drawing vocabulary incl. "
                "Unicode glyphs, parametric shapes, paragraphs of the bundled examples, shapes with {tags} inside, nested "
                "and underneath; offsets: one small "
                "(k,n<=8), one medium, one up to 400x200 per base; TLC checks the input relation and the document "
                "relation; non-trivial = the shifted document has at least one element")
    r = common.rng("C06")
    # model: shift-commutation of the pipeline model on small grids
    cfg = write_cfg("MC_C06", {"W": 2, "H": 2, "Alphabet": tla_set([32, 45, 124, 43, 46, 39, 40, 41, 47, 92])},
                    ["ShiftCommutes"], init="MCInit", next_="MCNext")
    run.model("MC_Rel", cfg)
    corpus = gen.mixed_corpus(r, n)
    corpus = [t for t in corpus if t.strip() and '"' not in t and "# Legend:" not in t]
    # shapes with a {tag} inside (the enclosure stage decides by bounding boxes: it must not depend on the place
    # either), nested, and with the tag written under the shape, where it stays text
    for i in range(max(40, n // 12)):
        tg = r.choice(["{a}", "{abc}", "{a1,b2}"])
        w, kind = len(tg) + r.randint(0, 4), i % 4
        if kind == 0:
            corpus.append(gen.box(w, r.randint(1, 3), r.choice(["sharp", "round", "uni"]), tg))
        elif kind == 1:
            inner = gen.box(w, 1, "sharp", tg).split("\n")
            ww = len(inner[0]) + 2
            corpus.append("\n".join(["+" + "-" * ww + "+"] + ["| " + x + " |" for x in inner] + ["+" + "-" * ww + "+"]))
        elif kind == 2:
            corpus.append(gen.box(w, 1, "sharp", "ab") + "\n" + " " * r.randint(0, 3) + tg)
        else:
            corpus.append(gen.box(w + 2, 2, "sharp", tg) + "  " + r.choice(["o--", "*", "+--+"]))
    # wide drawings with quoted labels (rows of several hundred bytes once moved far to the right)
    for i in range(10):
        w = r.randint(100, 140)
        corpus.append("+" + "-" * w + "+\n| \"label %d\"" % i + " " * (w - 12) + " |\n+" + "-" * w + "+  \"q\" --")
    # a tab between two things on one line is one blank cell wherever the line starts
    corpus += ["+--+\t+--+\n|  |\t|  |\n+--+\t+--+", "---\t--->", "a\tb\t\tc", "|\t|\n+-\t-+", "\t/\n/\t"]
    # a byte order mark (or any other invisible character) as the very first character; empty and short quoted labels at the
    # left margin (something follows them on the row: a quoted string alone is the known finding)
    corpus += ["\ufeffStore --> x", "\ufeff+--+\n|  |\n+--+", "\u200b| a", '"" "x" --+\n         |', '""ab "q" |', '"a" -- "" --', '"" |\n"" |']
    # the bundled examples as whole files (up to 2 400 rows; moved down they pass every round number of rows)
    whole = [t.split("# Legend:")[0] for _, t in gen.bundled_files()]
    whole = [t for t in whole if '"' not in t]
    if tier == "quick":
        whole = sorted(whole, key=lambda t: t.count("\n"))[-2:] + r.sample(whole, 1)
    corpus += whole
    # the shared pool: legend-free texts of plain lines (a quoted string alone on the page is the known finding
    # F-C12-quoted-canvas - the page does not see it, moved or not - so quoted texts stay with the hand-made rows above)
    corpus += pool(r, tier, lambda t: gen.plain_lines(t) and not gen.has_legend(t) and '"' not in t and t.strip(), 500)
    corpus = gen.dedup(corpus)
    groups = []
    for t in corpus:
        g = [({"input": t}, None)]
        offs = [(r.randint(0, 8), r.randint(0, 8)), (r.randint(0, 60), r.randint(0, 30))]
        # one offset that puts a cell of the drawing right before / at a multiple of a power of two in both directions
        # (block-wise processing, tiles, bit masks)
        cells_ = [(x, y) for y, row in enumerate(t.split("\n")) for x, ch in enumerate(row) if ch not in " \t"]
        if cells_:
            cx, cy = r.choice(cells_)
            M = r.choice([8, 16, 32, 64, 64, 64, 128, 256])
            kk = M * r.randint(1, max(1, 384 // M)) - r.choice([0, 1]) - cx
            nn2 = M * r.randint(1, max(1, 192 // M)) - r.choice([0, 1]) - cy
            if kk >= 0 and nn2 >= 0:
                offs.append((kk, nn2))
        if max(len(x) for x in t.split("\n")) >= 100:
            offs.append((r.randint(386, 400), r.randint(0, 30)))      # the longest rows the quantifier allows
        if t.count("\n") >= 400:
            offs = [(r.randint(0, 3), r.randint(120, 200)), (0, 200)]  # the tallest pages the quantifier allows
        # one far offset per base: f32 geometry at large magnitudes
        offs.append(r.choice([(r.randint(250, 400), r.randint(0, 20)), (r.randint(0, 20), r.randint(126, 200)),
                              (r.randint(200, 400), r.randint(100, 200))]))
        for j, (k, nn) in enumerate(offs):
            g.append(({"input": gen.shift_text(t, k, nn)}, {"kind": "shift", "of": j + 1, "k": k, "n": nn}))
        groups.append(g)
    rel_events(run, groups, "C06")
    run.samples.append({"base": corpus[0], "offsets": "see rule"})
    run.validate(shard=1500)
    run.assumptions = std_assumptions()
    return run.finish()


def c10(tier):
    run = Run("C10", tier)
    n = 900 if tier == "quick" else 200000
    run.rule = ("triples (A, B, A|B) with A, B legend-free, tag-free, quote-free diagrams (random grids over the "
                "full vocabulary, shapes, bundled paragraphs) placed side by side (tops aligned, or one of them lowered) or "
                "stacked with gaps 1..3; TLC "
                "checks the juxtaposition of the inputs and then UnionDoc; non-trivial = juxtaposed document non-empty")
    r = common.rng("C10")
    if tier == "quick":
        cfg = write_cfg("MC_C10", {"W": 2, "H": 1, "Alphabet": tla_set([32, 45, 124, 43, 46, 39])},
                        ["JuxtaCommutes"], init="MCInitPair", next_="MCNext")
    else:
        cfg = write_cfg("MC_C10", {"W": 2, "H": 2, "Alphabet": tla_set([32, 45, 124, 43])},
                        ["JuxtaCommutes"], init="MCInitPair", next_="MCNext")
    run.model("MC_Rel", cfg, timeout=3000)
    corpus = [t for t in gen.mixed_corpus(r, n) if t.strip() and '"' not in t and "{" not in t and "# Legend:" not in t]
    cat = _json.load(open(os.path.join(common.ROOT, "verifpy", "catalogue.json"), encoding="utf-8"))
    special = []
    for i in range(max(40, n // 8)):
        kind = i % 4
        if kind == 0:        # a catalogue circle, with a label (also wide) right or left of it
            D = cat[r.choice([0, 1, 0, 1] + list(range(2, 22)))]
            if i % 8 == 0:
                # two circles touching each other: one span with two catalogue matches
                wd = max(len(x) for x in D)
                D = [x.ljust(wd) + x for x in D]
            special.append("\n".join(x.rstrip() for x in D))
        elif kind == 1:      # rows ending in double-width characters
            special.append("\n".join(gen.random_grid(r, r.randint(1, 5), 1, "ab-|+ ", 0.7) + r.choice(gen.WIDE) for _ in range(r.randint(1, 4))))
        elif kind == 2:      # balanced quoted strings, also with combining / zero-width characters inside
            special.append("\n".join(r.choice(["", "ab ", "| "]) + '"' + r.choice(["re\u0301sume\u0301", "a\u200db", "x\u0308y", "plain", "一二"]) + '"'
                                     + r.choice([" |", " -+", " a"]) for _ in range(r.randint(1, 3))))   # (a quoted string is never the right-most thing: F-C12-quoted-canvas)
        else:
            special.append(gen.box(r.randint(1, 6), r.randint(1, 3), r.choice(["sharp", "round", "uni"])))
    # zero-width and combining characters outside quotes (they take a cell of their own), and arcs / circles of the
    # catalogue with a stroke or a label attached
    for i in range(16):
        special.append(r.choice(["re\u0301sume\u0301 |", "a\u200db --", "x\u0308 +--+\n   |  |\n   +--+", "\ufe0f-->", "| e\u0301 |\n+---+"]))
        special.append(gen.catalogue_scene(r, [r.choice(["ab", "x1"])]))
    # rows of many isolated components (rulers, tick marks, spaced labels) next to multi-row shapes
    for i in range(16):
        cnt = r.randint(8, 20)
        special.append(r.choice(["  ".join(r.choice(gen.LABELS) for _ in range(cnt)), " ".join("|" for _ in range(cnt)),
                                 "  ".join(r.choice(["o", "*", "+", "x1"]) for _ in range(cnt))]))
        special.append(gen.box(r.randint(1, 5), r.randint(1, 3), r.choice(["sharp", "round", "uni"])))
    special += ["\ufeff.--.\n|  |\n'--'", "\ufeffab --", "+--+\t+--+\n|  |\t|  |\n+--+\t+--+", "--\t-->\n\t|", "a\tb"] * 2
    r.shuffle(special)
    # shapes whose first row starts at their left edge, next to rows ending in a wide character
    for i in range(12):
        corpus += [gen.random_grid(r, r.randint(1, 4), 1, "ab", 1.0) + r.choice(gen.WIDE), r.choice(["()", "(_)", "(_)--", "()-"])]
    corpus = corpus + special + [x for pair in zip(special, reversed(special)) for x in pair]
    # two arcs of the same table with neighbouring radii (one drawing contains the other), in both orders; and a part
    # whose right-most character is double-width next to / above a part whose right-most character stands in that very column
    tabs10 = _json.load(open(os.path.join(common.ROOT, "verifpy", "catalogue_tables.json"), encoding="utf-8"))
    def art_of(e):
        cells = {(c[0], c[1]): chr(c[2]) for c in e["span"]}
        hh, ww = max(y for (_, y) in cells) + 1, max(x for (x, _) in cells) + 1
        return "\n".join("".join(cells.get((x, y), " ") for x in range(ww)).rstrip() for y in range(hh))
    if len(corpus) % 2:
        corpus.append("ab")          # (pairs are taken two by two from here on)
    for key in ("quarter", "half", "three_quarters"):
        ents = tabs10[key]
        for _ in range(10 if tier == "quick" else 120):
            i_ = r.randrange(len(ents))
            a_, b_ = art_of(ents[i_]), art_of(r.choice(ents[max(0, i_ - 4):i_ + 5]))
            if a_.strip() and b_.strip():
                corpus += [a_, b_]
        # ... and every pair of entries of which one drawing is part of the other (the table is searched for the first
        # entry whose cells are all there: the order of the search decides), the smaller one first and the larger one first
        norm = []
        for e in ents:
            cells = {(c[0], c[1]): c[2] for c in e["span"]}
            mx, my = min(x for x, _ in cells), min(y for _, y in cells)
            norm.append({(x - mx, y - my): ch for (x, y), ch in cells.items()})
        sub = [(i_, j_) for i_ in range(len(ents)) for j_ in range(len(ents))
               if i_ != j_ and len(norm[i_]) < len(norm[j_]) and all(norm[j_].get(k_) == v_ for k_, v_ in norm[i_].items())]
        for (i_, j_) in (r.sample(sub, min(len(sub), 10)) if tier == "quick" else sub):
            corpus += [art_of(ents[i_]), art_of(ents[j_]), art_of(ents[j_]), art_of(ents[i_])]
    for _ in range(12 if tier == "quick" else 200):
        w_ = r.randint(1, 8)
        corpus += [gen.random_grid(r, w_, 1, "ab-+", 1.0) + r.choice(gen.WIDE[:8]),
                   gen.random_grid(r, w_ + 1, r.randint(1, 2), "ab-+|", 1.0)]
    # the shared pool: tame, legend-free, tag-free, quote-free texts, paired with each other
    pl = pool(r, tier, lambda t: gen.tame(t) and not gen.has_legend(t) and '"' not in t and "{" not in t and "}" not in t and t.strip(), 400)
    corpus += pl[:len(pl) // 2 * 2]
    groups = []

    def dcols(s_):
        return sum(2 if common_wide(c) else 1 for c in s_)
    # small left neighbours (a word, a stroke) for shapes that are matched as a whole (circles, arcs, round boxes)
    for i in range(max(30, n // 20)):
        corpus += [r.choice(["ab", "a-", "--", "|", "x1 -", "+", "o-", "Hello"]),
                   r.choice(["\n".join(cat[r.randrange(22)]), gen.box(r.randint(1, 4), r.randint(1, 3), "round"),
                             " .-\n(\n `-", "  /\n /\n+", ".-.\n| |\n'-'"])]
    # every third pair also in the other order (what is decided about the first part must not decide the second)
    if len(corpus) % 2:
        corpus.append("ab")
    corpus += [x for i in range(0, len(corpus) - 1, 6) for x in (corpus[i + 1], corpus[i])]
    for i in range(0, len(corpus) - 1, 2):
        a, b = corpus[i], corpus[i + 1]
        # vertical placement: both at the top (half of the pairs), or one of them lowered: by a few rows, so that
        # its first row is the other's last row, or so that the bottoms align
        if i % 4 >= 2:
            ha, hb = len(a.split("\n")), len(b.split("\n"))
            if r.random() < 0.5:
                a = "\n" * r.choice([r.randint(1, 4), max(hb - 1, 1), max(hb - ha, 1)]) + a
            else:
                b = "\n" * r.choice([r.randint(1, 4), max(ha - 1, 1), max(ha - hb, 1)]) + b
        side = r.random() < 0.6
        if not side and r.random() < 0.5:
            # stacked: the lower part moved right, so that its first cell stands one column after the upper part's
            # last cell (or anywhere)
            la = [x for x in a.split("\n") if x.strip()]
            fb = [x for x in b.split("\n") if x.strip()]
            if la and fb:
                want = dcols(la[-1].rstrip()) - (len(fb[0]) - len(fb[0].lstrip(" ")))
                sh = r.choice([want, want, r.randint(0, 12)])
                if sh > 0:
                    b = "\n".join(" " * sh + x if x else x for x in b.split("\n"))
        ra, rb = a.split("\n"), b.split("\n")
        gap = r.choice([1, 1, 2, 3])
        if side:
            ra_s = [x.rstrip(" \t") for x in ra]
            at = max(dcols(x) for x in ra_s) + gap
            h = max(len(ra), len(rb))
            j = "\n".join((((ra_s[k] if k < len(ra) else "") + " " * (at - dcols(ra_s[k] if k < len(ra) else ""))) + (rb[k] if k < len(rb) else "")).rstrip(" \t")
                          for k in range(h))
            rel = {"kind": "juxta", "of": 2, "of2": 1, "mode": "side", "at": at, "gap": gap}
        else:
            j = "\n".join(ra + [""] * gap + rb)
            rel = {"kind": "juxta", "of": 2, "of2": 1, "mode": "stack", "at": 0, "gap": gap}
        groups.append([({"input": a, "wid": True}, None), ({"input": b}, {"kind": "none"}), ({"input": j}, rel)])
    # the middle event (B) must not start a shard on its own: give it a rel marker without props
    obs_cases = [c for g in groups for (c, _) in g]
    obs = observe.observe(obs_cases, tag="C10R")
    i = 0
    for g in groups:
        for pos, (c, rel) in enumerate(g):
            o = obs[i]
            i += 1
            ev = {"props": ["C10"] if pos == 2 else [], "rows": o["rows"], "doc": o["doc"]}
            if pos > 0:
                ev["rel"] = rel
            if pos == 0:
                ev["wid"] = wid_rows(o["rows"])
            run.add_event(ev, {"input": c["input"], "rel": rel, "a": g[0][0]["input"], "b": g[1][0]["input"],
                               "bases": [{"input": g[0][0]["input"]}, {"input": g[1][0]["input"]}] if pos == 2 else None})
    run.samples.append({"a": groups[0][0][0]["input"], "b": groups[0][1][0]["input"], "joined": groups[0][2][0]["input"]})
    run.validate(shard=1500)
    run.assumptions = std_assumptions()
    return run.finish()


SCALES = [0.5, 1, 3, 10, 20, 37.5]


def c11(tier):
    run = Run("C11", tier)
    n = 500 if tier == "quick" else 100000
    run.rule = ("each input is converted at scale 8 and at scales {0.5,1,3,10,20,37.5} (2 of them per input in the "
                "quick tier); documents are recorded in lattice units (numbers divided exactly by scale/8), so "
                "ScaledDoc is bag equality up to 1/1000 cell; inputs contain grouped and free lines, rects with and "
                "without radius, arcs, circles, polygons, marker lines, texts and tagged shapes; "
                "plus RefCanvas at scale 8 = 8x16 per cell. non-trivial = document non-empty")
    r = common.rng("C11")
    corpus = [t for t in gen.mixed_corpus(r, n) if t.strip()]
    tagged = []
    for i in range(max(30, n // 10)):
        tg = r.choice(["{a}", "{abc}", "{a1,b2}"])
        # tight boxes too: the tag touches the walls of its box
        tagged.append(gen.box(len(tg) + r.choice([0, 0, 1, 3, 6]), r.randint(1, 3), r.choice(["sharp", "round", "uni"]), tg))
        wd = len(tg) + r.choice([0, 2, 4])
        # a box whose top edge is drawn with underscores: the tag sits in the first row under it
        tagged.append(" " + "_" * wd + "\n|" + tg.ljust(wd) + "|\n|" + "_" * wd + "|")
        # a tag or a word next to lines that carry markers (bullets, arrowheads): their extent scales like everything else
        tagged.append(gen.box(len(tg) + 2, 1, "sharp", tg) + r.choice(["o--", "*--o", "-->", " o-- " + tg, "\no--  " + tg + "\n*--> ab"]))
    # a tag at the far right / far left of every interior row of a catalogue circle (its extent against the circle's box)
    cat11 = _json.load(open(os.path.join(common.ROOT, "verifpy", "catalogue.json"), encoding="utf-8"))
    for idx in range(6, 22):
        D = cat11[idx]
        wmax = max(len(x) for x in D)
        for y in range(len(D)):
            row = D[y].ljust(wmax)
            for tg in ("{a}", "{ab}"):
                for x0 in (wmax - len(tg), wmax - len(tg) - 1, 0, 1):
                    if 0 <= x0 and all(ch == " " for ch in row[x0:x0 + len(tg)]):
                        rows_ = [x.ljust(wmax) for x in D]
                        rows_[y] = row[:x0] + tg + row[x0 + len(tg):]
                        tagged.append("\n".join(x.rstrip() for x in rows_))
    # large drawings: the canvas grows without bound (hundreds of rows / columns at the largest scales)
    big = ["\n".join(["|  |"] * r.randint(230, 420)), "+" + "-" * r.randint(450, 830) + "+", "\n".join("o-- x%d" % i for i in range(250))]
    groups = []
    tagged_set = set(tagged) | set(big)
    corpus = gen.dedup(corpus + pool(r, tier, None, 500))
    for t in corpus + tagged + big:
        g = [({"input": t, "entry": "settings", "settings": {"scale": 8.0}}, None)]
        scales = SCALES if tier == "thorough" else (r.sample(SCALES, 2) if t not in tagged_set else [0.5, 1, 37.5] + r.sample(SCALES[2:5], 1))
        for j, s in enumerate(scales):
            g.append(({"input": t, "entry": "settings", "settings": {"scale": s}}, {"kind": "scale", "of": j + 1}))
        groups.append(g)
    rel_events(run, groups, "C11")
    run.samples.append({"input": tagged[0], "scales": SCALES})
    run.validate(shard=1500)
    # ... and through the entry point with a page size of the caller's choosing (the scale's own page, a small one, a large one)
    ogroups = []
    for t in (corpus[::5] + tagged[::4]):
        g = [({"input": t, "entry": "settings", "settings": {"scale": 8.0}}, None)]
        for j, sc_ in enumerate(r.sample([0.5, 1, 3, 8.0, 10, 20, 37.5], 2)):
            rows_ = t.split("\n")
            wn, hn = sc_ * (max(len(x) for x in rows_) + 2), 2 * sc_ * (len(rows_) + 2)
            w_, h_ = r.choice([(wn, hn), (wn, hn), (16.0, 16.0), (4000.0, 3000.0)])
            g.append(({"input": t, "entry": "override", "settings": {"scale": sc_}, "w": float(w_), "h": float(h_)}, {"kind": "scale", "of": j + 1}))
        ogroups.append(g)
    rel_events(run, ogroups, "C11ov")
    run.validate(shard=1500)
    # the same buffer rendered at one scale after another (and written in between)
    buffer_part(run, r, 120 if tier == "quick" else 3000, ["scale", "fresh"], "C11H")
    run.assumptions = std_assumptions()
    return run.finish()


def eol_variant(r, t, crlf):
    lines = t.split("\n")
    out = []
    depth = 0
    for ln in lines:
        pad = "".join(r.choice(" \t") for _ in range(r.choice([0, 0, 1, 3])))
        inside = depth > 0
        depth += ln.count("{") - ln.count("}")
        if inside or depth > 0:
            pad = ""      # inside a multi-line legend declaration blanks are part of the CSS text
        out.append(ln + pad)
    out += [""] * r.randint(0, 5)
    return ("\r\n" if crlf else "\n").join(out)


LEGENDS = ["# Legend:\na = {fill:red}\n", "# Legend:\nbig = {stroke:blue; fill:none}\nx1={fill:#aaa}\n",
           "# Legend:\na = {\n  fill: red;\n  stroke: \"x\"\n}\nb = {stroke-width:4}",
           # empty lines inside the legend: after the header, between entries, twice
           "# Legend:\n\na = {fill:red}\n", "# Legend:\na = {fill:red}\n\nb = {stroke:blue}\n",
           "# Legend:\na = {fill:red}\nb2 = {x:y}\n\n\nc = {stroke:blue}",
           # the header alone (with the variants' trailing blanks it is also the very last line, with and without a line ending)
           "# Legend:", "# Legend:",
           # the '{' of an entry on the line below its '=' (whatever that is worth, it is worth the same in every variant)
           "# Legend:\na =\n{fill:red}\nb = {x:y}\n", "# Legend:\nb = {x:y}\na =\n  {fill:red}\n"]


def c17(tier):
    run = Run("C17", tier)
    n = 500 if tier == "quick" else 100000
    run.rule = ("each input (with and without legend, quoted text, wide characters) is converted as is and in "
                "variants: LF/CRLF x random trailing blanks/tabs per line x 0..5 trailing blank lines; TLC checks "
                "EolVariant of the inputs (same rows once CR and trailing blanks are removed) and SameDoc (same "
                "elements, canvas and style text); non-trivial = non-empty document")
    r = common.rng("C17")
    cfg = write_cfg("MC_C17", {"W": 3, "H": 2, "Alphabet": tla_set([32, 45, 124, 97])},
                    ["EolInvariant"], init="MCInit", next_="MCNext")
    run.model("MC_Rel", cfg)
    corpus = [t for t in gen.mixed_corpus(r, n) if t.strip()]
    npool = len(corpus)
    corpus += pool(r, tier, lambda t: "\r" not in t, 500)        # the shared pool, as it is (legends, quotes, tags included)
    # legends of several KiB (just below / above 4, 8 and 16 KiB: with CRLF or trailing blanks the same legend is longer)
    for target in (3900, 4050, 8100, 16300):
        ents, size, j_ = [], 0, 0
        while size < target:
            e_ = "r%d = {fill: #%06x; stroke-width: %d}" % (j_, (j_ * 2654435761) % 0xFFFFFF, j_ % 7)
            ents.append(e_)
            size += len(e_) + 1
            j_ += 1
        corpus.append("+--+\n|{r1}|\n+--+  o--> ab\n# Legend:\n" + "\n".join(ents) + "\n")
    groups = []
    for i, t in enumerate(corpus):
        t = "\n".join(x.rstrip(" \t") for x in t.split("\n"))
        if "r1 = {fill" in t:
            pass
        elif i >= npool:
            pass
        elif i % 3 == 0:
            t = t + "\n" + r.choice(LEGENDS)
        elif i % 3 == 1:
            # a quoted string followed by nothing, by a word, or by exactly one character right after the closing quote
            t = t + r.choice(['\n "quoted |-+ text" ' + r.choice(["", "一二", "x"]), '\n|"a-+b"|', '\n--> "out"*', '\n "q"' + r.choice("|+-x)")])
        if i % 25 == 7:
            # a document that begins with the legend: nothing below the header is a drawing, whatever the line endings
            t = r.choice(LEGENDS[:3]) + "\n" + r.choice(["", "\n"]) + t
        g = [({"input": t, "want_style": True}, None)]
        for j in range(2 if tier == "quick" else 4):
            g.append(({"input": eol_variant(r, t, crlf=(j % 2 == 0)), "want_style": True}, {"kind": "eol", "of": j + 1}))
        groups.append(g)
    rel_events(run, groups, "C17")
    run.samples.append({"base": groups[0][0][0]["input"], "variant": groups[0][1][0]["input"]})
    run.validate(shard=1200)
    # the model forwards on the variants themselves (CRLF, final line breaks, trailing blanks; tabs are outside the model)
    full_conformance(run, [c["input"] for g in groups for (c, _) in g], "C17G", 250 if tier == "quick" else 6000)
    run.assumptions = std_assumptions()
    return run.finish()


PLANS.update({"C06": c06, "C10": c10, "C11": c11, "C17": c17})


# ------------------------------------------------------------------------------------------
DRESS_LEGENDS = ["# Legend:\na = {fill:red}\n", "# Legend:\nbig = {stroke:blue; fill:none}\nx1={fill:#aaa}",
                 "# Legend:", "# Legend:\r\nq = {\r\n  fill: red;\r\n}\r\n", "# Legend:  \n\nzz = {x:y}\n"]


def pool(r, tier, want=None, nq=600):
    """inputs of the shared pool (gen.universe) that the asking property's quantifier admits; a seeded sample in the
    quick tier, all of them in the thorough one"""
    return gen.universe(r, nq if tier == "quick" else None, want)


def blank_quoted(t):
    """t with every quoted region, quotes included, replaced by as many spaces as display columns; None when a row
    is outside C15's domain (unbalanced quotes or a backslash on a row with quotes, a brace anywhere)"""
    out = []
    if "{" in t or "}" in t:
        return None           # a brace anywhere puts the text outside the domain (Reference!QuoteDomain)
    for row in t.split("\n"):
        if '"' not in row:
            out.append(row)
            continue
        if row.count('"') % 2 or "\\" in row:
            return None
        parts = row.split('"')
        b = ""
        for j, part in enumerate(parts):
            b += part if j % 2 == 0 else " " * (sum(2 if common_wide(c) else 1 for c in part) + 2)
        out.append(b)
    return "\n".join(out)


def dress(r, t):
    """the same drawing in another dress: CRLF line ends, trailing blanks / blank lines (invisible by C17), or a legend
    below it (never drawn, by C16).  returns (text, kind); DocTrace checks the dress before it trusts it"""
    kinds = ["eol", "eol", "legend"] if "# Legend:" not in t else ["eol"]
    kind = r.choice(kinds)
    if kind == "eol":
        return eol_variant(r, t, crlf=r.random() < 0.6), "eol"
    body = eol_variant(r, t, crlf=False) if r.random() < 0.3 else t
    return body + "\n" + "\n" * r.choice([0, 0, 1, 2]) + r.choice(DRESS_LEGENDS), "legend"


def dressed_events(run, r, cases, every, tag, post=None):
    """cases: list of (text, event-fields, replay-info).  Every `every`-th case is converted once more in another dress
    and the same oracle predicates are evaluated on the document of the dressed text (event fields orows / dec)"""
    picked = [c for i, c in enumerate(cases) if i % every == 0 and c[0].strip()]
    dd = [dress(r, t) for (t, _, _) in picked]
    # ... and, for a third of them, at another scale (documents are recorded in lattice units whatever the scale, and C11
    # says the scale changes nothing else); every fifth keeps its text and changes the scale only
    reqs = []
    for j, (dt, kind) in enumerate(dd):
        if j % 5 == 4:
            dd[j] = (picked[j][0], "eol")
            dt = picked[j][0]
        if j % 3 != 0:
            st_ = {"scale": r.choice(SCALES)}
            if j % 2:
                # ... with the switches and the cosmetic settings at other values too (C18: none of them alters what is drawn)
                st_.update({"include_styles": r.random() < 0.5, "include_defs": True, "include_backdrop": r.random() < 0.5,
                            "stroke_width": r.choice([0.5, 2.0, 3.0, 5.0, 20.0]), "font_size": r.choice([7, 14, 40])})
            reqs.append({"input": dt, "entry": "settings", "settings": st_})
        else:
            reqs.append({"input": dt})
    obs = observe.observe(reqs, tag=tag)
    for (t, fields, info), (dt, kind), o, rq in zip(picked, dd, obs, reqs):
        info = dict(info, entry=rq.get("entry", "to_svg"), settings=rq.get("settings"))
        ev = dict(fields)
        ev.update({"rows": o["rows"], "orows": gen.rows_of(t), "dec": kind, "doc": o["doc"]})
        if post:
            post(ev, o)
        inf = dict(info)
        inf.update({"input": dt, "dressed_from": t, "dec": kind})
        run.add_event(ev, inf)
    return len(picked)


# ------------------------------------------------------------------------------------------
def replay_full_docs(run, res, props_for, tag):
    """replay Stages!FullDoc behaviours: the real library must give the same elements with the same class names,
    the same canvas and the same legend rules (difference = drift); every observation becomes an event"""
    behf = common.tla_json_strings(res["lines"], "REPLAY")
    ftexts = ["".join(chr(c) for c in b["text"]) for b in behf]
    fobs = observe.observe([{"input": t, "want_style": True} for t in ftexts], tag=tag)
    for b, t, o in zip(behf, ftexts, fobs):
        run.replayed += 1
        doc = o["doc"]
        style_flat = "\n".join("".join(chr(c) for c in ln) for ln in doc.get("style", []))
        want_rules = "\n".join(".svgbob .%s{ %s }" % ("".join(map(chr, nm)), "".join(map(chr, dc))) for nm, dc in b["rules"])
        builtin = {"solid", "broken", "nofill", "filled", "bg_filled"}
        real_tagged = Counter()
        for e in doc.get("elems", []):
            extra = frozenset(c for c in e["cls"] if c not in builtin and "marked" not in c)
            one = dict(doc)
            one["elems"] = [e]
            for tp in real_tuples(one):
                real_tagged[(tp, extra)] += 1
        model_tagged = Counter()
        for tp, tg in zip(b["out"], b["tags"]):
            for mt in model_tuples([tp]):
                model_tagged[(mt, frozenset("".join(chr(c) for c in nm) for nm in tg))] += 1
        same = (o["out"] == "return" and real_tagged == model_tagged and doc.get("w") == b["w"] * 1000
                and doc.get("h") == b["h"] * 1000 and style_flat.endswith(want_rules)
                and (want_rules != "" or style_flat.rstrip().endswith("}")))
        if not same:
            run.drift += 1
            if len(run.drift_samples) < 5:
                run.drift_samples.append({"input": t, "model": {"w": b["w"], "h": b["h"], "rules": want_rules, "out": b["out"], "tags": b["tags"]},
                                          "real": {"w": doc.get("w"), "h": doc.get("h"), "style_tail": style_flat[-80:],
                                                   "elems": [[e["k"], e["n"], e["cls"]] for e in doc.get("elems", [])][:12]}})
        run.add_event({"props": props_for(t), "rows": o["rows"], "doc": {k: v for k, v in doc.items() if k != "style"}},
                      {"input": t, "entry": "to_svg", "source": "full-document replay"})
    return len(behf)


FULL_EXTRA = set('"{}#,;:=%') | set(gen.WIDE)


def full_in_domain(t):
    """texts the whole-conversion model (Stages!FullDoc) describes: the modelled drawing vocabulary, labels,
    wide characters of the stable blocks, quotes, braces and legend punctuation; no tabs or other blanks"""
    from . import stages
    if not t.strip() or not stages.in_domain("".join(ch for ch in t if ch not in FULL_EXTRA and ch != "\r")):
        return False
    return True


def full_conformance(run, texts, tag, limit):
    """the model run forwards on inputs chosen by the code side: Stages!FullDoc of every in-domain text (TLC,
    MC_FullOf) against the real conversion of the same text; differences are drift"""
    # (texts of modest size: the specification's recogniser walks a legend character by character, which is no way to
    # get through 16 KiB of rules; the large legends are bound through C16legend / C17 instead)
    texts = [t for t in gen.dedup(texts) if len(t) <= 700 and full_in_domain(t)][:limit]
    if not texts:
        return 0
    d = common.rundir()
    path = os.path.join(d, "texts-%s.ndjson" % tag)
    with open(path, "w") as f:
        for t in texts:
            f.write(_json.dumps({"t": [ord(c) for c in t]}) + "\n")
    cfg = write_cfg("MC_FullOf_" + tag, {}, ["LegendCut", "Emit"], init="Init")
    res = run.model("MC_FullOf", cfg, timeout=7200, env={"TEXTS": path})
    n = replay_full_docs(run, res, lambda t: [], tag)
    run.notes["corpus_documents_through_the_model"] = run.notes.get("corpus_documents_through_the_model", 0) + n
    return n


def c12(tier):
    run = Run("C12", tier)
    n = 1200 if tier == "quick" else 80000

    def classify(preds):
        if "C12" not in preds:
            return []          # C12x is only a classifier of C12 failures
        return [("C12", None if "C12x" in preds else "quoted-text-not-in-bounds")]
    run.classify = classify
    run.rule = ("every document is checked for RefCanvas (one cell of margin beyond the right-most / bottom-most "
                "occupied display cell; both columns of a wide character; quotes and quoted content count) and "
                "Contained (every vertex and text extent inside the canvas); inputs: the mixed corpus over the full "
                "vocabulary, wide characters and quoted text at the right and bottom edge, legends, scales "
                "{0.5, 8, 37.5}; the model part: the same predicate as invariant of Pipeline.tla on all small grids. "
                "non-trivial = non-empty document")
    r = common.rng("C12")
    cfg = write_cfg("MC_C12", {"W": 3, "H": 2, "Alphabet": tla_set([32, 45, 124, 46, 95] if tier == "quick" else [32, 45, 124, 43, 46, 96, 95])},
                    ["ModelC12", "ModelC09"])
    run.model("MC_Doc", cfg)
    # one test per transition of the glyph tables: every modelled character with at most K neighbours
    modelled = [45, 126, 124, 58, 33, 43, 46, 39, 44, 96, 95, 61, 47, 92, 40, 41, 62, 60, 94, 118, 86, 42, 111, 79, 88, 35, 8217]
    cfgn = write_cfg("MC_Nbhd", {"K": 1 if tier == "quick" else 2, "Centres": tla_set(modelled), "Around": tla_set(modelled)},
                     ["ModelC09", "ModelC05", "ModelC12", "Emit"])
    resn = run.model("MC_Nbhd", cfgn, timeout=10000)
    nb = replay_models(run, [resn], ["C12", "C12x", "C09", "C05s"])
    if tier == "thorough":
        # the Unicode glyphs as centres and as neighbours of everything (K = 1)
        import re as _re
        uni = [int(x) for x in _re.search(r"UnicodeChars == \{([^}]*)\}", open(os.path.join(common.SPEC, "UnicodeGlyphs.tla")).read()).group(1).split(",")]
        cfgu = write_cfg("MC_NbhdU", {"K": 1, "Centres": tla_set(modelled + uni), "Around": tla_set(modelled + uni)},
                         ["ModelC09", "ModelC05", "ModelC12", "Emit"])
        resu = run.model("MC_Nbhd", cfgu, timeout=10000)
        nb += replay_models(run, [resu], ["C12", "C12x", "C09", "C05s"])
    run.notes["neighbourhood_grids"] = nb
    run.validate()
    from . import stages
    stages.conformance(run, [rows_text(b["rows"]) for b in common.tla_json_strings(resn["lines"], "REPLAY")][:2000 if tier == "quick" else 150000])
    # the whole conversion on the model (Stages!FullDoc: legend split, rows, unquote, spans, quoted texts, canvas):
    # every text of a small grid over an alphabet with the double quote and a wide character, followed by one of
    # seven legend tails; replayed: same elements, same canvas, same rules
    cfgf = write_cfg("MC_Full", {"W": 2, "H": 1 if tier == "quick" else 2,
                                 "Alphabet": tla_set([32, 34, 45, 124, 97, 19968, 123, 125])},
                     ["ModelC12x", "ModelC12", "LegendCut", "HeaderLineHonoured", "Emit"], init="Init")
    resf = run.model("MC_Full", cfgf, timeout=5000)
    def props_for(t):
        # a "# Legend:" that does not start its line is outside the statements (the code cuts there, the
        # properties speak of a '# Legend:' line): such texts are compared with the model only
        midline = any("# Legend:" in ln and not ln.lstrip(" \t").startswith("# Legend:") for ln in t.split("\n"))
        return [] if midline else ["C12", "C12x"]
    nfull = replay_full_docs(run, resf, props_for, "C12F")
    run.notes["full_documents_replayed"] = nfull
    run.validate()
    corpus = [t for t in gen.mixed_corpus(r, n)]
    extra = []
    for i in range(n // 6):
        w = r.randint(1, 12)
        kind = i % 6
        if kind == 0:
            # (the wide blocks below U+2E80 and beyond the BMP get extra weight: width tables are often cut there)
            extra.append(gen.random_grid(r, w, r.randint(1, 4), "ab-|+ ", 0.5) + r.choice(gen.WIDE + "\u1100\u1105\u1112\U00020000\uff21" * 2))
        elif kind == 1:
            extra.append(" " * r.randint(0, 9) + '"' + gen.random_grid(r, w, 1, "ab-|+<>& ", 0.8) + '"')
        elif kind == 2:
            extra.append(gen.box(w, 1) + "\n" + " " * r.randint(0, 14) + '"' + r.choice(gen.WIDE) * r.randint(1, 3) + '"')
        elif kind == 3:
            extra.append(gen.random_grid(r, w, 2, "ab-|+ ", 0.6) + "\n" + r.choice(LEGENDS))
        elif kind == 4 and i % 12 == 4:
            # a zero-width or combining character as the right-most thing (it occupies a cell of its own)
            extra.append(gen.random_grid(r, w, r.randint(1, 3), "ab-|+ ", 0.5) + r.choice(["e\u0301", "ab\u200b", "|x\u0308", "\u200d", "o\ufe0f"]))
        elif kind == 4:
            extra.append("\n" * r.randint(0, 3) + " " * r.randint(0, 5) + r.choice(["_", ".", "'", "/", "\\", "(", ")", "*", "o", "#", "v", "^", "┌", "╯"]))
        else:
            extra.append("")
    # the right-most column shared by a double-width character (its second cell) in one row and a narrow one in another
    for i in range(30 if tier == "quick" else 600):
        w_ = r.randint(0, 9)
        top_ = gen.random_grid(r, w_, 1, "ab-+", 1.0) + r.choice(gen.WIDE)
        low_ = gen.random_grid(r, w_ + 1 + (i % 2), 1, "ab-+|", 1.0)
        extra.append(r.choice([top_ + "\n" + low_, low_ + "\n" + top_, top_ + "\n\n" + low_, low_ + "\n" + top_ + "\n" + low_]))
    # shapes tangent to the top / left border of the page (no margin there): catalogue circles and circle glyphs at
    # the origin, also at scales where a radius is not a whole number
    cat12 = _json.load(open(os.path.join(common.ROOT, "verifpy", "catalogue.json"), encoding="utf-8"))
    for i in range(22):
        extra.append("\n".join(cat12[i]))
    extra += ["○", "●--", "⊕", "O", "(_)\n", "*-", "o"]
    extra += ["+-----------+\n| # Legend: |\n+-----------+", "see # Legend: below\n+--+\n|  |\n+--+", '"# Legend:" -->\n   |', ".-----------.\n| # Legend: a|\n'-----------'"]
    # ... and the arcs of the catalogue tables (quarter, half, three-quarter circles) in the top rows / left columns
    extra += ["\n".join(gen.catalogue_art(r)) for _ in range(40 if tier == "quick" else 600)]
    texts = gen.dedup(corpus + extra + ["", " ", "\n\n", "a"] + pool(r, tier, lambda t: gen.tame(t) and gen.header_at_line_start(t), 900))
    cases = []
    for i, t in enumerate(texts):
        if i % 5 == 3:
            cases.append({"input": t, "entry": "settings", "settings": {"scale": r.choice([0.5, 37.5, 3, 12.5])}})
        elif i % 5 == 1 and i % 3 == 0:
            # (the page is a matter of cells and scale: strokes, fonts and switches are not lengths of the drawing)
            cases.append({"input": t, "entry": "settings", "settings": {"stroke_width": r.choice([3.0, 5.0, 20.0]), "font_size": r.choice([7, 30]),
                                                                        "include_styles": r.random() < 0.5}})
        else:
            cases.append({"input": t})
    origin = [t for t in extra if t and t[0] != "\n" and any(ch in t for ch in "()○●⊕O*o`'.,")][-90:]
    for t in origin:
        for sc in (3, 12.5, 37.5):
            cases.append({"input": t, "entry": "settings", "settings": {"scale": sc}})
    obs = observe.observe(cases, tag="C12B")
    for c, o in zip(cases, obs):
        run.add_event({"props": ["C12", "C12x"], "rows": o["rows"], "doc": o["doc"]},
                      {"input": c["input"], "entry": c.get("entry", "to_svg"), "settings": c.get("settings")})
    run.samples += [{"input": extra[1]}, {"input": extra[2]}]
    run.validate()
    # the page of a buffer that grows and shrinks between renders is the page of what is in it now
    keep = run.classify
    buffer_part(run, r, 120 if tier == "quick" else 3000, ["canvas"], "C12H")
    run.classify = keep
    # the model forwards on this corpus (and on the paragraphs of the bundled examples): Stages!FullDoc of each
    # text the model describes against the real conversion
    full_conformance(run, gen.bundled_chunks(12) + texts, "C12G", 250 if tier == "quick" else 6000)
    run.assumptions = std_assumptions() + ["'occupied' is read as: any non-whitespace character of the drawing part, "
                                           "quotes and quoted content included"]
    return run.finish()


def c09(tier):
    run = Run("C09", tier)
    n = 1200 if tier == "quick" else 60000
    maxlen = 60 if tier == "quick" else 400
    run.rule = ("(i) run family: for each of - ~ _ = | : ! / \\ and the box-drawing equivalents, lengths 1..%d at "
                "seeded offsets: RunOracle (exactly the expected line element(s), dashed iff the character is); "
                "(ii) NoCollinearTouching on every document of the mixed corpus over the full vocabulary; the model "
                "part: merge fixpoint + NoCollinearTouching as invariants of Pipeline.tla on all small grids. "
                "non-trivial = the document has at least two plain lines, or is a run" % maxlen)
    r = common.rng("C09")
    cfg = write_cfg("MC_C09", {"W": 3, "H": 2, "Alphabet": tla_set([32, 45, 124, 47, 92, 95] if tier == "quick" else [32, 45, 124, 43, 47, 92, 95, 40])},
                    ["ModelC09", "MergeFixpoint", "Emit"])
    res = run.model("MC_Doc", cfg)
    replay_models(run, [res], ["C09"])
    run.validate()
    runs = []
    HCH = "-~_=─–—┄═‾¯"
    VCH = "|:!│╎┊┆║"
    # (the quick tier also takes the far end of the quantifier: runs of 150 and 400)
    lengths = sorted(set(list(range(1, 14)) + [r.randint(14, maxlen) for _ in range(10)] + [maxlen] + ([150, 400] if tier == "quick" else [])))
    for ch in HCH + VCH + "/\\╱╲":
        for ln in lengths:
            if ch in ":!" and ln < 2:
                continue      # a lone ':' or '!' is text, not a run of line characters
            k, nn = r.randint(0, 6), r.randint(0, 4)
            if ch in HCH:
                body, d = gen.hrun(ln, ch), "h"
            elif ch in VCH:
                body, d = gen.vrun(ln, ch), "v"
            elif ch in "/╱":
                body, d = "\n".join(" " * (ln - 1 - i) + ch for i in range(ln)), "s"
            else:
                body, d = "\n".join(" " * i + ch for i in range(ln)), "b"
            runs.append((gen.shift_text(body, k, nn), {"chars": [ord(ch)] * ln, "len": ln, "dir": d, "k": k, "n": nn}))
    # mixed runs: solid and dashed characters of one direction in one run (dashed if any part is)
    for (solid, dashes, d) in (("-", "~", "h"), ("─", "┄", "h"), ("|", ":!", "v"), ("│", "┊┆╎", "v")):
        for ln in [x for x in lengths if x >= 2][:14]:
            for variant in range(3):
                chars = [solid] * ln
                if variant == 0:          # dashed tail after a solid head
                    cut = r.randint(1, ln - 1)
                    chars[cut:] = [r.choice(dashes) for _ in range(ln - cut)]
                elif variant == 1:        # dashed head
                    cut = r.randint(1, ln - 1)
                    chars[:cut] = [r.choice(dashes) for _ in range(cut)]
                else:                     # one dashed stretch inside
                    a_ = r.randrange(ln)
                    chars[a_] = r.choice(dashes)
                if d == "v" and solid == "|":
                    # a ':' or '!' needs a vertical neighbour to be a stroke: guaranteed inside a run of length >= 2
                    pass
                k, nn = r.randint(0, 6), r.randint(0, 4)
                body = "".join(chars) if d == "h" else "\n".join(chars)
                runs.append((gen.shift_text(body, k, nn), {"chars": [ord(c) for c in chars], "len": ln, "dir": d, "k": k, "n": nn}))
    obs = observe.observe([{"input": t} for t, _ in runs], tag="C09A")
    for (t, info), o in zip(runs, obs):
        run.add_event({"props": ["C09", "C09run"], "rows": o["rows"], "doc": o["doc"], "run": info},
                      {"input": t, "run": info})
    dressed_events(run, r, [(t, {"props": ["C09", "C09run"], "run": info}, {"run": info}) for (t, info) in runs], 4, "C09D")
    run.samples.append({"input": runs[5][0], "run": runs[5][1]})
    corpus = gen.mixed_corpus(r, n)
    # characters that stroke along an edge of their cell: a bottom-edge character above a top-edge one (and a
    # right-edge character left of a left-edge one) draw on the same line from two different rows (columns)
    for i in range(n // 8):
        alpha = r.choice(["_‾¯ ", "_‾ ", "_‾¯□ ", "▏▕ ", "▏▕|_‾ ", "_‾-= "])
        corpus.append(gen.random_grid(r, r.randint(3, 10), r.randint(2, 4), alpha, r.choice([0.5, 0.8])))
    # ... and the same deliberately: a run of one kind with a few characters of the other kind above / below it (left /
    # right of it), inside the run's extent, at its ends and beyond
    for i in range(max(60, n // 10)):
        L = r.randint(3, 14)
        top, bot = r.choice([("_", "‾"), ("_", "¯"), ("□", "‾")])
        if i % 2 == 0:
            upper = [" "] * (L + 2)
            for _ in range(r.randint(1, 3)):
                upper[r.randrange(L + 2)] = top
            corpus.append("".join(upper).rstrip() + "\n" + " " * r.randint(0, 1) + bot * L)
        else:
            lower = [" "] * (L + 2)
            for _ in range(r.randint(1, 3)):
                lower[r.randrange(L + 2)] = bot
            corpus.append(" " * r.randint(0, 1) + top * L + "\n" + "".join(lower).rstrip())
    corpus += [gen.hatch_grid(r) for _ in range(12)] + [gen.comb_grid(r) for _ in range(12)]
    # short free runs dropped into pictures of large shapes (a run can lie in the bounding boxes of several separate shapes, in a
    # box under a long diagonal, inside a frame around everything): each run is still one line, once
    for i in range(max(80, n // 6)):
        runs_ = [r.choice(["---", "--", "~~~", "==", "___", "----", "|", "::"]) for _ in range(r.randint(1, 4))]
        sc_ = gen.scene(r, runs_, wmax=30, hmax=14)
        corpus.append(gen.framed(sc_) if i % 2 else sc_)
        if i % 4 == 0:
            corpus.append(gen.run_in_box_under_diagonal(r))
    # strokes that run into a glyph drawing two separate fragments (crosses, double lines): the glyph's cell belongs to two
    # contact groups
    for g in "╳╪╫╬═║┼X#+":
        for L in (1, 2, 3, 5):
            corpus.append("\\--\n" + "\n".join(" " * (i + 1) + "\\" for i in range(L - 1)) + ("\n" if L > 1 else "") + " " * L + g)
            corpus.append("|--\n" + "|\n" * (L - 1) + g)
            corpus.append("-" * L + g + "-" * L + "\n" + " " * L + "|")
            corpus.append(" " * L + "/\n" + "\n".join(" " * (L - 1 - i) + "/" for i in range(L - 1)) + ("\n" if L > 1 else "") + g)
    # ... and such a glyph diagonally off the end of a run (a column ending above-right of it, a row ending above-left of it ...)
    for g in "╳╪╫╬═║┼X#+*oO":
        for L in (1, 2, 3):
            corpus.append("\n".join([" |"] * L + [g]))
            corpus.append("\n".join([g] + [" |"] * L))
            corpus.append("\n".join(["|"] * L + [" " + g]))
            corpus.append("-" * L + "\n" + " " * L + g)
            corpus.append(" " * L + g + "\n" + "-" * L)
    # ... and full crosses: two free runs crossing in such a glyph, arms of 1..7 cells on all four sides, in both alphabets
    for g in "┼╪╫╬+X#":
        for arm in (1, 2, 3, 7):
            for (hc, vc) in (("─", "│"), ("-", "|")):
                rows_ = [" " * arm + vc for _ in range(arm)] + [hc * arm + g + hc * arm] + [" " * arm + vc for _ in range(arm)]
                corpus.append("\n".join(rows_))
    # large structured inputs: many groups open between two pieces of one run
    big = []
    for i in range(12 if tier == "quick" else 200):
        w = r.randint(40, 130)
        kind = i % 4
        if kind == 0:
            big.append("\n".join("|" * w for _ in range(r.randint(2, 5))))
        elif kind == 1:
            big.append("\n".join(r.choice(["+-->", "|", "|   "]) for _ in range(r.randint(30, 90))))
        elif kind == 2:
            big.append(gen.random_grid(r, w, r.randint(3, 8), "-|+", 0.8))
        else:
            big.append("\n".join(("| " * (w // 2)) for _ in range(r.randint(2, 6))) + "\n" + "-" * w)
    observe_events(run, gen.dedup(corpus + big + pool(r, tier, None, 900)), ["C09"], "mixed-corpus")
    run.validate()
    run.assumptions = std_assumptions()
    return run.finish()


def c04(tier):
    run = Run("C04", tier)
    n = 1500 if tier == "quick" else 80000
    run.rule = ("TLC enumerates all rows of length <= 4 (quick) / 5 (thorough) over {a, é, 一, space, -, |} with a "
                "second row of dashes (one span) on the text-merge model and checks RefTextRuns as invariant; every "
                "behaviour is replayed; plus random multi-row inputs mixing ASCII, Latin-1, Cyrillic, CJK labels "
                "with drawing characters (no quotes/braces), and words dropped into pictures of large shapes (between "
                "parallel diagonals, in boxes under a long diagonal ...). Trace predicate C04: every text element shows the input "
                "characters at consecutive display columns from its anchor cell, texts are disjoint, every "
                "non-drawing character is covered. non-trivial = at least one non-drawing character")
    r = common.rng("C04")
    L = 4 if tier == "quick" else 5
    cfg = write_cfg("MC_C04", {"L": L, "Alphabet": tla_set([97, 233, 19968, 32, 45, 124])}, ["ModelC04", "Emit"])
    res = run.model("MC_Text", cfg)
    replay_models(run, [res], ["C04"])
    run.exhaustive = True
    texts = []
    alpha = gen.LABELS[:10] + gen.WIDE + gen.LATIN + gen.CYRIL
    for i in range(n):
        w, h = r.randint(1, 14), r.randint(1, 6)
        dens = r.choice([0.3, 0.6, 0.9])
        texts.append(gen.random_grid(r, w, h, alpha + "-|+.'/\\*_<>", dens))
    # words dropped into pictures of a few large shapes: inside, between and beside long diagonals, parallel
    # diagonals, boxes and nested boxes (a word can lie in the bounding boxes of several separate shapes)
    for i in range(n // 2):
        words = ["".join(r.choice(gen.LABELS[:10] + (gen.LATIN + gen.CYRIL if i % 3 == 0 else "")) for _ in range(r.randint(1, 4)))
                 for _ in range(r.randint(2, 6))]
        texts.append(gen.scene(r, words))
    # words in and around catalogue circles and arcs that stand away from the origin, alone or with a stroke, a box
    # or a second circle attached (the drawing is matched together with other cells of its span)
    for i in range(n // 4):
        words = ["".join(r.choice(gen.LABELS[:10]) for _ in range(r.randint(1, 3))) for _ in range(r.randint(1, 3))]
        texts.append(gen.catalogue_scene(r, words))
    # words spelled with the ASCII punctuation that has no drawing meaning, also in the spelling of entity and character
    # references (they are label characters like any other), alone, in boxes and among strokes
    ewords = ["{}", "a{}", "{}b", "{,}", "{-}", "k:{}", "AT&amp;T", "a&lt;b", "&#39;", "&quot;", "R&D", "50%", "[ok]", "x;y", "a?b", "&amp;amp;", "&gt;", "&nbsp;", "p@q", "$1", "&;", ";&", "&a", "&#x41;"]
    for i in range(max(40, n // 10)):
        ws = [r.choice(ewords) for _ in range(r.randint(1, 3))]
        kind = i % 4
        if kind == 0:
            texts.append("  ".join(ws))
        elif kind == 1:
            texts.append(gen.box(sum(len(w) + 1 for w in ws) + 1, 1, r.choice(["sharp", "round"]), " ".join(ws)))
        elif kind == 2:
            texts.append("--> " + " ".join(ws) + " <--\n" + gen.random_grid(r, 12, 1, "-|+ab&;%", 0.5))
        else:
            texts.append(gen.random_grid(r, r.randint(4, 14), r.randint(1, 4), "ab&;%@?[]#1-|+", 0.6))
    observe_events(run, gen.dedup(texts), ["C04"], "random-labels")
    dressed_events(run, r, [(t, {"props": ["C04"]}, {"source": "random-labels, dressed"}) for t in gen.dedup(texts)], 5, "C04D")
    # rows that also contain quoted strings (content without quote, backslash, braces)
    qtexts = []
    qalpha = gen.LABELS[:8] + gen.WIDE + gen.LATIN + gen.CYRIL + " -|+"
    for i in range(n // 3):
        rows = []
        for _ in range(r.randint(1, 3)):
            parts = []
            for _k in range(r.randint(1, 3)):
                w = "".join(r.choice(qalpha) for _ in range(r.randint(0, 5)))
                parts.append(w if r.random() < 0.5 else '"' + w + '"')
            rows.append(" ".join(parts))
        qtexts.append("\n".join(rows))
    observe_events(run, gen.dedup(qtexts), ["C04q"], "labels-with-quoted")
    dressed_events(run, r, [(t, {"props": ["C04q"]}, {"source": "labels-with-quoted, dressed"}) for t in gen.dedup(qtexts)], 5, "C04E")
    run.samples.append({"input": texts[0]})
    run.validate()
    run.assumptions = std_assumptions() + ["display width from Chars!WideCp; the drivers draw wide characters only from blocks on which all Unicode versions agree"]
    return run.finish()


PLANS.update({"C12": c12, "C09": c09, "C04": c04})


# ------------------------------------------------------------------------------------------
def simple_cfg(name, constants, invariants):
    path = os.path.join(common.rundir(), name + ".cfg")
    with open(path, "w") as f:
        if constants:
            f.write("CONSTANTS\n")
        for k, v in constants.items():
            f.write("  %s = %s\n" % (k, v))
        f.write("INIT Init\nNEXT Next\nINVARIANTS " + " ".join(invariants) + "\nCHECK_DEADLOCK FALSE\n")
    return path


def c15(tier):
    run = Run("C15", tier)
    n = 800 if tier == "quick" else 50000
    run.rule = ("model: for all rows of length <= L over {\", |, -, a, wide, 2-byte, <, space} the code's blanking "
                "mechanism equals the reference and keeps every outside character in its display column (TLC); "
                "code: pairs (a, b) where b = a with each quoted region, quotes included, replaced by spaces: TLC "
                "checks the input relation and elements(a) = elements(b) + the quoted texts at the opening quote "
                "(verbatim content); rows of arbitrary drawing content with 0..3 segments whose content ranges "
                "over drawing, markup, multi-byte and double-width characters, on multi-row diagrams. "
                "non-trivial = the base input has at least one quoted segment")
    r = common.rng("C15")
    cfg = simple_cfg("MC_C15", {"L": 5 if tier == "quick" else 6, "Alphabet": tla_set([34, 124, 45, 97, 19968, 233, 60, 32])},
                     ["MechEqualsRef", "KeepsColumns"])
    run.model("MC_Quote", cfg)
    content_alpha = gen.ASCII_DRAW + "<>&';" + gen.LABELS[:8] + gen.WIDE + gen.LATIN + "   "
    groups = []
    for i in range(n):
        h = r.randint(1, 4)
        rows_a, rows_b = [], []
        for _ in range(h):
            a, b = "", ""
            for _seg in range(r.randint(0, 3)):
                # every third group may have a backslash (a drawing character) anywhere outside the quotes,
                # also directly before an opening quote
                pre = gen.random_grid(r, r.randint(0, 6), 1, (gen.ASCII_DRAW if i % 3 == 0 else gen.ASCII_DRAW.replace("\\", ""))
                                      + "ab" + ("─│┌é一д" if i % 2 else ""), r.choice([0.3, 0.8]))
                if i % 6 == 0 and r.random() < 0.5:
                    pre += "\\"
                content = "".join(r.choice(content_alpha) for _ in range(r.randint(0, 8))).replace("\\", "/")
                if r.random() < 0.04:
                    content = r.choice(["# Legend:", "a # Legend: b", "#Legend", "= {x}"])     # legend-like text is content too
                elif r.random() < 0.06:
                    # invisible formatting characters (joiners, marks, a byte order mark): a cell each, verbatim like the rest
                    j_ = r.randint(0, len(content))
                    content = content[:j_] + r.choice(["\u200d", "\u200c", "\u200b", "\u2060", "\u200e", "\ufeff", "a\u200db", "\u0646\u200c\u0645"]) + content[j_:]
                wcells = sum(2 if c in gen.WIDE else 1 for c in content)
                a += pre + '"' + content + '"'
                b += pre + " " * (wcells + 2)
            post = gen.random_grid(r, r.randint(0, 6), 1, gen.ASCII_DRAW.replace("\\", "") + "ab" + gen.WIDE[:2], 0.6)
            rows_a.append(a + post)
            rows_b.append(b + post)
            if r.random() < 0.15:
                # the same row again, directly below (and sometimes once more)
                for _rep in range(r.randint(1, 2)):
                    rows_a.append(a + post)
                    rows_b.append(b + post)
        ta, tb = "\n".join(rows_a), "\n".join(rows_b)
        if "{" in ta or "}" in ta:
            ta, tb = ta.replace("{", "(").replace("}", ")"), tb.replace("{", "(").replace("}", ")")
        groups.append([({"input": ta}, None), ({"input": tb}, {"kind": "blank", "of": 1})])
    # the shared pool: whatever contains a quoted string and lies in the statement's domain
    for t in pool(r, tier, lambda t: '"' in t and gen.tame(t) and not gen.has_legend(t), 300):
        tb = blank_quoted(t)
        if tb is not None:
            groups.append([({"input": t}, None), ({"input": tb}, {"kind": "blank", "of": 1})])
    rel_events(run, groups, "C15")
    run.samples.append({"a": groups[1][0][0]["input"], "b": groups[1][1][0]["input"]})
    run.validate(shard=1500)
    # the model forwards on the quoted inputs
    full_conformance(run, [g[0][0]["input"] for g in groups], "C15G", 250 if tier == "quick" else 6000)
    run.assumptions = std_assumptions()
    return run.finish()


PAYLOADS = ["<script>alert(1)</script>", "</style><script>MK</script>", "<a href='x'>MK</a>", "<b onload=MK>",
            "]]>MK", "<!--MK-->", "<?MK x?>", "&MK;", "&lt;MK", "\"MK\"", "'MK'", "</text><MK/>", "</svg><MK>",
            "<![CDATA[MK]]>", "<!DOCTYPE MK>", "&#60;MK&#62;", "MK=\"1\"", "><MK"]


def sink_cases(r, n, marker_prefix="mk"):
    """(input text, channel, marker, expected text strings, expected style strings)"""
    out = []
    for i in range(n):
        marker = "%s%04x%s" % (marker_prefix, r.randrange(1 << 16), r.choice("abcdefgh"))
        pay = r.choice(PAYLOADS).replace("MK", marker)
        if marker not in pay:
            pay = pay + marker
        if i % 3 == 0:
            # multi-byte characters in front of the payload, in the same run
            pay = r.choice(["éééééééééééé", "привет", "жжжжжжжжж;", "ßßßßßßßßßßßßßßßßßßßß"]) + pay
        elif i % 3 == 1 and r.random() < 0.5:
            # double-width characters after the payload, one to eight of them (every balance of bytes gained by
            # escaping against filler bytes dropped)
            pay = pay + "".join(r.choice(gen.WIDE[:12]) for _ in range(r.randint(1, 8)))
        if i % 11 == 5:
            # a control character behind the payload (XML cannot carry most of them: dropped, never written raw)
            pay = pay + r.choice("\x01\x08\x0b\x0c\x0e\x1b\x7f\x85") + "z"
        if i % 7 == 3:
            # the payload spelled with look-alike delimiters (fullwidth forms, small form variants): characters of their
            # own, which must come out as themselves and never as the ASCII characters they resemble
            look = r.choice([{c: chr(ord(c) + 0xFEE0) for c in "<>&\"'/=!?-[]();"},
                             {"<": "\ufe64", ">": "\ufe65", "&": "\ufe60", ";": "\ufe54", "=": "\ufe66"}])
            pay = "".join(look.get(c, c) for c in pay)

        chan = ["plain", "quoted", "tag", "legend_name", "legend_decl", "quoted_tag"][i % 6]
        art = r.choice(["", gen.box(r.randint(2, 8), 1), gen.random_grid(r, 8, 2, "-|+/\\*o. ", 0.5), "o-->"])
        exp_t, exp_s = [], []
        if chan == "plain":
            p = pay.replace('"', "'")          # an odd number of quotes would pair up with other cells
            t = art + "\n" + p
            exp_t = [w for w in p.split(" ") if marker in w][:1]
        elif chan == "quoted":
            p = pay.replace('"', "'").replace("\\", "/")
            t = art + '\n "' + p + '" --'
            exp_t = [p]
        elif chan == "tag":
            t = gen.box(len(pay) + 4, 1, "sharp", "{" + pay + "}")
            exp_t = []
        elif chan == "quoted_tag":
            # a tag written inside a quoted string inside a shape, quotes and blanks of the payload backslash-escaped
            p = pay.replace("\\", "/").replace('"', '\\"').replace(" ", "\\ ").replace("=", "\\=")
            q = '"{' + p + '}"'
            t = gen.box(len(q) + 4, 1, "sharp", q)
            exp_t = []
        elif chan == "legend_name":
            # the payload as the name, or inside what a selector may carry after a name (pseudo-classes, attribute
            # tests, combinators)
            pre, post = r.choice([("", ""), ("", ""), ("b:not(", ")"), ("a:", ""), ("a.", ""), ("a[", "]"), ("a,", ""), ("a>", ""), ("a::", ""),
                                  ("a:is(", ")"), ("a ", "")])
            t = art + "\n# Legend:\n" + pre + pay + post + " = {fill:red}\n"
        else:
            p = pay.replace("{", "(").replace("}", ")")
            if r.random() < 0.3:
                p = "fill: url(" + p + ")"          # the payload where CSS expects a resource
            name = "a%s" % marker[2:6]
            entries = [(name, p)]
            if r.random() < 0.6:
                # several entries, the same class declared more than once: the payload in the first, a middle or the
                # last declaration of its class
                filler = ["fill:red;", "stroke:blue", "stroke-width:2"]
                entries = ([(name, r.choice(filler)) for _ in range(r.randint(0, 2))] + entries
                           + [(r.choice([name, "zz9"]), r.choice(filler)) for _ in range(r.randint(0, 2))])
            if r.random() < 0.3:
                # the payload inside a declaration block laid out over several lines
                entries = [(nm_, ("\n  fill: red;\n  " + dc_ + "\n") if dc_ == p else dc_) for (nm_, dc_) in entries]
            t = art + "\n# Legend:\n" + "".join("%s = {%s}\n" % e for e in entries)
            exp_s = [p]
        out.append((t, chan, marker, exp_t, exp_s))
    return out


def c08(tier):
    run = Run("C08", tier)
    n = 1000 if tier == "quick" else 60000
    run.rule = ("model: the escaping function of the character-data sinks leaves no markup-significant character "
                "for any string over one representative per character class (TLC, MC_Sinks); code: %d payloads "
                "(script, /style, a href, on*=, ]]>, comments, PIs, entities, quotes, CDATA, doctype) with unique "
                "marker names in every channel (plain cells, quoted strings, {tags}, legend names, legend "
                "declarations) combined with diagrams, every include_* combination; VocabularyOnly + "
                "MarkerConfined evaluated by TLC on the parsed document. non-trivial = every event (each carries a payload)" % len(PAYLOADS))
    r = common.rng("C08")
    cfg = simple_cfg("MC_C08", {"L": 3, "Alphabet": tla_set([60, 62, 38, 39, 34, 93, 0, 1, 127, 65534, 97, 9])},
                     ["NoRawMarkup", "RoundTrip"])
    run.model("MC_Sinks", cfg)
    cases = sink_cases(r, n)
    reqs = []
    for i, (t, chan, marker, _, _) in enumerate(cases):
        if i % 4 == 0:
            reqs.append({"input": t, "entry": "settings", "want_style": True,
                         "settings": {"include_styles": r.random() < 0.5, "include_defs": r.random() < 0.5,
                                      "include_backdrop": r.random() < 0.5}})
        elif i % 4 == 1:
            reqs.append({"input": t, "entry": "compressed", "want_style": True})
        elif i % 8 == 2:
            reqs.append({"input": t, "entry": "override", "settings": {}, "w": 400.0, "h": 300.0, "want_style": True})
        elif i % 8 == 6:
            reqs.append({"input": t, "entry": "pretty", "want_style": True})
        else:
            reqs.append({"input": t, "want_style": True})
    obs = observe.observe(reqs, tag="C08B")
    for (t, chan, marker, exp_t, exp_s), rq, o in zip(cases, reqs, obs):
        styles_on = rq.get("settings", {}).get("include_styles", True)
        run.add_event({"props": ["C08", "C08v"], "rows": o["rows"], "doc": o["doc"], "marker": [ord(c) for c in marker],
                       # (in plain cells the payload's drawing characters draw, so only the quoted and the legend channel
                       # promise one verbatim run)
                       "expect_text": [[ord(c) for c in x] for x in exp_t] if chan == "quoted" else [],
                       "expect_style": [[ord(c) for c in x] for x in exp_s] if styles_on else []},
                      {"input": t, "channel": chan, "entry": rq.get("entry", "to_svg"), "settings": rq.get("settings")})
    # svgbob's own vocabulary and nothing else, on the shared pool (no marker to look for there)
    observe_events(run, pool(r, tier, None, 900), ["C08voc"], "pool")
    run.samples += [{"input": cases[2][0], "channel": cases[2][1]}, {"input": cases[4][0], "channel": cases[4][1]}]
    run.validate(shard=800)
    run.assumptions = std_assumptions() + ["expat is the conforming XML parser that decides well-formedness"]
    return run.finish()


def c02(tier):
    run = Run("C02", tier, level="exploration")
    run.rule = ("model: escape/decode round trip of the character-data sinks for every string of length <= 3 over "
                "one representative per character class (TLC, MC_Sinks); code: Unicode sweep - scalar values in "
                "rows of 48 per document, in each channel (plain text, quoted text, legend declarations), %s; plus "
                "hostile strings; every include_* combination and pretty/compressed. TLC evaluates WellFormedDoc and "
                "TextRoundTrip (each text element reads back the input cells from its anchor minus what XML cannot "
                "represent; the probe strings carried by the event are found in the read-back text / style). "
                "non-trivial = the event carries at least one probe string"
                % ("all 1,112,064 scalar values" if tier == "thorough" else "a stratified 1/48 sample plus all of U+0000..U+02FF and the boundary values"))
    r = common.rng("C02")
    cfg = simple_cfg("MC_C02", {"L": 3, "Alphabet": tla_set([60, 62, 38, 39, 34, 93, 0, 1, 127, 65534, 97, 9])},
                     ["NoRawMarkup", "RoundTrip"])
    run.model("MC_Sinks", cfg)
    scalars = [c for c in range(0x110000) if not (0xD800 <= c <= 0xDFFF)]
    if tier == "quick":
        keep = set(range(0x300)) | {0xFFFE, 0xFFFF, 0xFFFD, 0xD7FF, 0xE000, 0x10000, 0x10FFFF, 0x2028, 0x2029, 0x85, 0xFEFF}
        scalars = [c for c in scalars if c in keep or r.random() < 1 / 48.0]
    cases = []
    for i in range(0, len(scalars), 48):
        chunk = [c for c in scalars[i:i + 48] if c not in (10, 13)]
        plain = "".join(chr(c) for c in chunk)
        # plain channel: letters and arbitrary characters separated by blanks so that each is its own text run
        cases.append(("x " + " ".join(chr(c) for c in chunk if c != 34), "plain",
                      [[c] for c in chunk if c not in (34, 32, 9) and not chr(c).isspace() and chr(c) not in gen.FULL + "’"], []))
        q = "".join(chr(c) for c in chunk if c not in (34, 92, 123, 125))
        cases.append((' "' + q + '"', "quoted", [[ord(ch) for ch in q]], []))
        d = "".join(chr(c) for c in chunk if c not in (123, 125))
        cases.append(("a\n# Legend:\nk = {" + d + "}\n", "legend", [], [[ord(ch) for ch in d]]))
    hostile = ["<", ">", "&", "'", "\"a\"", "]]>", "a&b<c>d", "&amp;", "&#0;", "&nbsp;", "&lt;b&gt;", "&#x3c;", "<!--", "\x00\x01\x02", "\x7f\x80\x9f", "￾￿"]
    hostile += [" x", "  indented <label>", "trail  ", " a  b ", "\ta", "AT&amp;T", "x&lt;y", "a&#38;b", "&quot;q&quot;"]
    hostile += ["status\x1bok", "abc\x01def", "m[i[j]]>0", "a[b[0]]>c", "x]]>", "]]>]]>", "a\x08b", "ok\x0cgo", "1<2>0", "a&&b", "\x7f\x1f"]
    for hst in hostile:
        # (a printable run without blanks or drawing characters is one text run in the plain channel too)
        whole = hst.isprintable() and all(ch not in gen.FULL + "’\"{}" and not ch.isspace() for ch in hst)
        cases.append((hst, "plain", [[ord(ch) for ch in hst]] if whole else [], []))
        q = hst.replace('"', "'").replace("\\", "/")
        cases.append((' "' + q + '" --', "quoted", [[ord(ch) for ch in q]], []))
        d = hst.replace("{", "(").replace("}", ")")
        cases.append(("a\n# Legend:\nk = {" + d + "}\n", "legend", [], [[ord(ch) for ch in d]]))
        # a declaration block laid out over several lines (the layout of the repository's own examples)
        cases.append(("a\n# Legend:\nk = {\n  fill: red;\n  " + d + "\n}\nm = {x:y}\n", "legend", [], [[ord(ch) for ch in d]]))
        # the same class declared twice, the hostile string in the later declaration
        cases.append(("a\n# Legend:\nk = {fill:red}\nj = {x:y}\nk = {" + d + "}\n", "legend", [], [[ord(ch) for ch in d]]))
    # the name channels: characters that XML cannot carry, markup characters and non-ASCII letters inside a {tag} in a
    # shape and inside a legend name (a name the grammar accepts becomes a class attribute / a selector verbatim)
    for c in [0xFFFE, 0xFFFF, 0x1, 0x1b, 0x7f, 0x85, 0xA0, 0xE9, 0x3c, 0x26, 0x22, 0x27, 0xD7FF, 0xE000, 0x10FFFF, 0x4e00, 0x301, 0x200b]:
        ch = chr(c)
        cases.append(("+--------+\n| {a" + ch + "} |\n+--------+", "tag", [], []))
        cases.append(("+--------+\n| {" + ch + "b,c} |\n+--------+", "tag", [], []))
        cases.append(("+------+\n| {k" + ch + "} |\n+------+\n# Legend:\nk" + ch + " = {fill:red}\n" + ch + "z = {x:y}\n", "legend", [], []))
    for tagtxt in ["{fill:red}", "{fill: url(t.svg?w=8&h=8)}", "{a:b<c}", "{x: 'y' & z}", "{}", "{ }", "{,}", "{a:}"]:
        cases.append(("+" + "-" * (len(tagtxt) + 2) + "+\n| " + tagtxt + " |\n+" + "-" * (len(tagtxt) + 2) + "+", "tag", [], []))
        cases.append((".--------------------------.\n| " + tagtxt.ljust(24) + " |\n'--------------------------'\n  ( " + tagtxt + " )", "tag", [], []))
    for nm in ["a:hover", "a:not(.b<c&d)", "b::before", "c[x='<']", "d>e", "f,g", "h.i", "j:is(<k>)"]:
        cases.append(("+--+\n|  |\n+--+\n# Legend:\n" + nm + " = {stroke: red}\nz = {fill:blue}\n", "legend", [], []))
    reqs = []
    combos = [(a, b, c) for a in (True, False) for b in (True, False) for c in (True, False)]
    for i, (t, chan, _, _) in enumerate(cases):
        m = i % 5
        if m == 0:
            reqs.append({"input": t, "want_style": True})
        elif m == 1:
            reqs.append({"input": t, "entry": "compressed", "want_style": True})
        elif m == 2:
            reqs.append({"input": t, "entry": "pretty", "want_style": True})
        elif m == 3 and (i // 5) % 2:
            reqs.append({"input": t, "entry": "override", "settings": {}, "w": 640.0, "h": 480.0, "want_style": True})
        else:
            a, b, c = combos[(i // 5) % 8]
            st = {"include_styles": True if chan == "legend" else a, "include_defs": b, "include_backdrop": c}
            reqs.append({"input": t, "entry": "settings", "settings": st, "want_style": True})
    obs = observe.observe(reqs, tag="C02B")
    for (t, chan, et, es), rq, o in zip(cases, reqs, obs):
        run.add_event({"props": ["C02"], "rows": o["rows"], "doc": o["doc"], "expect_text": et, "expect_style": es},
                      {"input": t, "channel": chan, "entry": rq.get("entry", "to_svg"), "settings": rq.get("settings")})
    # the first sentence of the statement (one well-formed svg document) on the shared pool, in the three renderings
    ptexts = pool(r, tier, None, 900)
    pobs = observe.observe([{"input": t, "entry": ["to_svg", "compressed", "pretty"][i % 3]} for i, t in enumerate(ptexts)], tag="C02P")
    for i, (t, o) in enumerate(zip(ptexts, pobs)):
        run.add_event({"props": ["C02wf"], "rows": o["rows"], "doc": o["doc"]}, {"input": t, "entry": ["to_svg", "compressed", "pretty"][i % 3], "source": "pool"})
    run.samples += [{"input": cases[0][0][:80], "channel": "plain"}, {"input": cases[1][0][:80], "channel": "quoted"}]
    run.notes["scalars_swept"] = len(scalars)
    run.validate(shard=600)
    run.assumptions = std_assumptions() + ["expat is the conforming XML parser that decides well-formedness"]
    return run.finish()


PLANS.update({"C15": c15, "C08": c08, "C02": c02})


# ------------------------------------------------------------------------------------------
def gen_box(r, w, h, k, n, kind):
    """kind: sharp | round | round2 | uni | uniround; random edge styles and side stretches"""
    mix = kind.endswith("_mix")          # corners of one alphabet, edges and sides of either (chosen independently)
    kind = kind.replace("_mix", "")
    ascii_ = kind in ("sharp", "round", "round2")
    tl, tr, bl, br = {"sharp": "++++", "round": "..''", "round2": ",.`'", "uni": "┌┐└┘", "uniround": "╭╮╰╯"}[kind]
    hz_ascii = r.random() < 0.5 if mix else ascii_
    hz_opts = ["-", "~"] if hz_ascii else ["─", "┄"]
    if mix:
        ascii_ = r.random() < 0.5        # from here on: the alphabet of the two sides
    style = r.choice(["solid", "solid", "dash_h", "dash_v", "mixed", "only_top", "only_bottom", "only_left", "only_right"])
    hz_calls = [0]

    def hz_row():
        hz_calls[0] += 1
        if style == "only_top":
            return (hz_opts[1] if hz_calls[0] == 1 else hz_opts[0]) * w
        if style == "only_bottom":
            return (hz_opts[1] if hz_calls[0] == 2 else hz_opts[0]) * w
        if style in ("dash_h",):
            return r.choice(hz_opts[1]) * w
        if style == "mixed":
            return "".join(r.choice(hz_opts) for _ in range(w))
        return hz_opts[0] * w

    side_calls = [0]

    def side_col():
        side_calls[0] += 1
        col = ["|" if ascii_ else "│"] * h
        dash_this = style in ("dash_v", "mixed") or (style == "only_left" and side_calls[0] == 1) or (style == "only_right" and side_calls[0] == 2)
        if dash_this and h >= 2:
            if ascii_:
                # dashed stretch that continues a vertical stroke
                a = r.randrange(0, h)
                b_ = r.randint(a, h - 1)
                for i in range(a, b_ + 1):
                    col[i] = r.choice(":!")
                if all(c in ":!" for c in col):
                    col[r.randrange(h)] = "|"
                # every dashed char needs a vertical neighbour in the side; fix isolated ones
                for i in range(h):
                    if col[i] in ":!":
                        up = i > 0
                        dn = i < h - 1
                        if not (up or dn):
                            col[i] = "|"
            else:
                for i in range(h):
                    if r.random() < 0.4:
                        col[i] = r.choice("┊┆╎")
                if all(c != "│" for c in col):
                    col[r.randrange(h)] = "│"
        return col
    left, right = side_col(), side_col()
    text_mode = r.choice(["none", "label", "full", "wide", "words"])
    rows = [tl + hz_row() + tr]
    for i in range(h):
        inner = " " * w
        if text_mode == "label" and i == h // 2 and w >= 2:
            lab = "".join(r.choice(gen.LABELS) for _ in range(r.randint(1, min(w, 6))))
            off = r.randint(0, w - len(lab))
            inner = " " * off + lab + " " * (w - off - len(lab))
        elif text_mode == "full":
            inner = "".join(r.choice(gen.LABELS + "  ") for _ in range(w))
        elif text_mode == "wide" and w >= 2:
            # labels in other scripts, double-width ones too (two columns each)
            inner, room = "", w
            while room > 0:
                ch = r.choice(gen.WIDE[:12] + gen.LATIN + gen.CYRIL + "   ")
                cw_ = 2 if common_wide(ch) else 1
                if cw_ > room:
                    ch, cw_ = " ", 1
                inner += ch
                room -= cw_
        elif text_mode == "words":
            # many separate one-letter words (more groups than any look-back window when the box is large)
            inner = "".join(r.choice(gen.LABELS) if j % 2 == 0 else " " for j in range(w))
        rows.append(left[i] + inner + right[i])
    rows.append(bl + hz_row() + br)
    text = "\n" * n + "\n".join(" " * k + x for x in rows)
    return text, {"k": k, "n": n, "w": w, "h": h}


def multi_boxes(r):
    """two or three boxes of the family close enough to share a span: a caption squeezed between two stacked ones, corner to
    corner on a diagonal, a column of letters between two side by side.  returns (text, [box records])"""
    kinds = ["sharp", "round", "round2", "uni", "uniround"]
    page = {}
    recs = []

    def put(rows, k, n):
        for y, row in enumerate(rows):
            x = 0
            for ch in row:
                if ch != " ":
                    page[(k + x, n + y)] = ch
                x += 2 if common_wide(ch) else 1

    def one(wmin=1):
        w, h = r.randint(wmin, 7), r.randint(0, 3)
        t, b = gen_box(r, w, h, 0, 0, r.choice(kinds))
        return t.split("\n"), b
    arrangement = r.choice(["caption", "diag", "letters", "caption3"])
    rowsA, bA = one(2)
    k0, n0 = r.randint(0, 4), r.randint(0, 2)
    put(rowsA, k0, n0)
    recs.append({"k": k0, "n": n0, "w": bA["w"], "h": bA["h"]})
    if arrangement in ("caption", "caption3"):
        y = n0 + bA["h"] + 2
        for rep_ in range(2 if arrangement == "caption3" else 1):
            word = "".join(r.choice(gen.LABELS) for _ in range(r.randint(1, 5)))
            cx = k0 + r.randint(0, 2)
            put([word], cx, y)
            rowsB, bB = one(2)
            kB = max(0, cx + r.randint(-1, 1))
            put(rowsB, kB, y + 1)
            recs.append({"k": kB, "n": y + 1, "w": bB["w"], "h": bB["h"]})
            y = y + 1 + bB["h"] + 2
            k0 = kB
    elif arrangement == "diag":
        rowsB, bB = one()
        kB, nB = k0 + bA["w"] + 2, n0 + bA["h"] + 2
        put(rowsB, kB, nB)
        recs.append({"k": kB, "n": nB, "w": bB["w"], "h": bB["h"]})
    else:
        kL = k0 + bA["w"] + 2
        rowsB, bB = one()
        hh = max(bA["h"], bB["h"]) + 2
        put(["".join(r.choice(gen.LABELS))] * 1, kL, n0)
        for yy in range(hh):
            if r.random() < 0.8:
                page[(kL, n0 + yy)] = r.choice(gen.LABELS)
        put(rowsB, kL + 1, n0)
        recs.append({"k": kL + 1, "n": n0, "w": bB["w"], "h": bB["h"]})
    H = max(y for (_, y) in page) + 1
    out = []
    for y in range(H):
        xs = sorted(x for (x, yy) in page if yy == y)
        row, x = "", 0
        for cx in xs:
            if cx < x:
                return None, None          # overlap of a wide label with something: skip this draw
            row += " " * (cx - x) + page[(cx, y)]
            x = cx + (2 if common_wide(page[(cx, y)]) else 1)
        out.append(row)
    return "\n".join(out), recs


def mutate(r, text, alphabet):
    rows = [list(x) for x in text.split("\n")]
    cand = [(i, j) for i, row in enumerate(rows) for j in range(len(row))]
    for _ in range(r.choice([1, 1, 2])):
        if not cand:
            break
        i, j = r.choice(cand)
        rows[i][j] = r.choice(alphabet)
    if r.random() < 0.3:
        rows.append(list(r.choice(["+--+", "| |", "+-+", "|  |", "--"])))
    if r.random() < 0.3:
        rows.insert(0, list(r.choice(["+--+", "| |", "+-+", "|  |", "--"])))
    return "\n".join("".join(x) for x in rows)


C05_ALPHA = "-|+.'`,~:! "


def c05(tier):
    run = Run("C05", tier)
    run.rule = ("completeness: the box family (sharp / rounded . , ' ` / box-drawing corners; - ~ edges; | sides with "
                ": ! stretches; interior label text), interior sizes %s at seeded offsets: BoxOracle (TLC checks the "
                "input is the claimed box, then exactly one rect with the expected position, size, radius and class, "
                "plus the interior texts). soundness (RectSound: every half-cell of every rect edge lies in a cell "
                "whose character can stroke in that direction there) on: all small grids over the alphabet on the "
                "model (TLC invariant) and replayed, the box-mutation family (single/double substitutions, extra "
                "rungs/rails), random grids over {-,|,+,.,',`,,,~,:,!,space} and the mixed corpus. non-trivial = the "
                "document contains a rect" % ("0..16 x 0..8" if tier == "quick" else "0..60 x 0..30"))
    r = common.rng("C05")
    cfg = write_cfg("MC_C05", {"W": 3, "H": 3 if tier == "thorough" else 2, "Alphabet": tla_set([32, 45, 124, 43] if tier == "thorough" else [32, 45, 124, 43, 46, 39])},
                    ["ModelC05", "Emit"])
    res = run.model("MC_Doc", cfg)
    replay_models(run, [res], ["C05s"])
    run.validate()
    kinds = ["sharp", "round", "round2", "uni", "uniround", "sharp_mix", "round_mix", "uni_mix", "uniround_mix"]
    boxes = []
    if tier == "quick":
        sizes = [(w, h) for w in list(range(0, 9)) + [12, 16] for h in [0, 1, 2, 3, 5, 8]]
        per = 1
    else:
        sizes = [(w, h) for w in range(0, 61) for h in range(0, 31)]
        per = 1
    for (w, h) in sizes:
        for kind in kinds:
            if kind != "sharp" and kind != "uni" and w == 0:
                continue
            for _ in range(per):
                boxes.append(gen_box(r, w, h, r.randint(0, 5), r.randint(0, 3), kind))
    for _ in range(6 if tier == "quick" else 60):
        boxes.append(gen_box(r, r.randint(40, 70), r.randint(3, 6), r.randint(0, 5), r.randint(0, 3), r.choice(kinds)))
    # tall boxes: the heights at the far end of the quantifier (a side of thirty rows next to a half-cell stub)
    for hh in ([20, 27, 28, 29, 30] if tier == "quick" else list(range(20, 31))):
        for kind in ("sharp", "round", "uni"):
            boxes.append(gen_box(r, r.randint(1, 6), hh, r.randint(0, 5), r.randint(0, 3), kind))
    obs = observe.observe([{"input": t} for t, _ in boxes], tag="C05A")
    for (t, b), o in zip(boxes, obs):
        run.add_event({"props": ["C05box", "C05s"], "rows": o["rows"], "doc": o["doc"], "box": b}, {"input": t, "box": b})
    dressed_events(run, r, [(t, {"props": ["C05box", "C05s"], "box": b}, {"box": b}) for (t, b) in boxes], 4, "C05D")
    # several boxes in one span: each keeps its own position, size, radius and class
    multi = []
    for _ in range(300 if tier == "quick" else 20000):
        t, recs = multi_boxes(r)
        if t:
            multi.append((t, recs))
    mobs = observe.observe([{"input": t} for t, _ in multi], tag="C05M")
    for (t, recs), o in zip(multi, mobs):
        run.add_event({"props": ["C05multi", "C05s"], "rows": o["rows"], "doc": o["doc"], "boxes": recs}, {"input": t, "boxes": recs})
    run.samples.append({"input": boxes[len(boxes) // 2][0], "box": boxes[len(boxes) // 2][1]})
    run.validate(shard=1200)
    # soundness families
    n = 1500 if tier == "quick" else 80000
    muts = []
    for i in range(n):
        t, _ = gen_box(r, r.randint(0, 6), r.randint(0, 4), r.randint(0, 2), r.randint(0, 1), r.choice(kinds[:3]))
        muts.append(mutate(r, t, C05_ALPHA))
    rnd = [gen.random_grid(r, r.randint(2, 10), r.randint(2, 6), C05_ALPHA[:-1], r.choice([0.5, 0.8, 0.95])) for _ in range(n // 2)]
    corpus = gen.mixed_corpus(r, n // 3)
    # rounded outlines whose four corners are drawn, independently, in the aligned form (corner character in the
    # sides' column) or the offset form (one column inside, the side starting a row lower): all sixteen mixes;
    # the uniform ones are boxes, the others are closed outlines that are not rectangles
    mixed = []
    for w in range(2, 9 if tier == "quick" else 24):
        for h in range(1, 4 if tier == "quick" else 10):
            for m in range(16):
                if tier == "quick" and (w + h + m) % 3:
                    continue
                tl, tr, bl, br = m & 1, (m >> 1) & 1, (m >> 2) & 1, (m >> 3) & 1
                k = r.randint(0, 3)
                W = w + 2
                top = [" "] * W
                bot = [" "] * W
                for x in range(tl, W - tr):
                    top[x] = "-"
                for x in range(bl, W - br):
                    bot[x] = "-"
                top[tl], top[W - 1 - tr], bot[bl], bot[W - 1 - br] = ".", ".", "'", "'"
                rows = ["".join(top)] + ["|" + " " * w + "|"] * h + ["".join(bot)]
                mixed.append("\n".join((" " * k + x).rstrip() for x in rows))
    rails = [gen.rail_grid(r) for _ in range(n // 3)] + [gen.box_with_crossings(r) for _ in range(n // 4)]
    observe_events(run, gen.dedup(muts + rnd + corpus + mixed + rails + pool(r, tier, gen.tame, 900)), ["C05s"], "soundness")
    run.samples.append({"input": muts[0]})
    run.validate()
    from . import stages
    stages.conformance(run, gen.dedup(muts + rnd)[:1500 if tier == "quick" else 40000])
    run.assumptions = std_assumptions() + ["a rounded box needs at least one edge character between its corners; a side is a '|' side (contains a '|')"]
    return run.finish()


PLANS.update({"C05": c05})


# ------------------------------------------------------------------------------------------
import json as _json


def frozen_data_drift(run):
    """the model's frozen data (catalogue circle / arc tables, Unicode glyph table) against the tables of the code
    under test, dumped through the hooks: a difference means the mechanism model no longer describes this tree;
    recorded as drift (the property verdicts never depend on it)"""
    import subprocess, sys
    exe = common.BOBDRIVE
    d = common.rundir()
    tj, gj, gt = os.path.join(d, "tables.json"), os.path.join(d, "glyphs.ndjson"), os.path.join(d, "UnicodeGlyphs.tla")
    diffs = []
    try:
        subprocess.run([exe, "tables", tj], check=True, timeout=300, stdout=subprocess.DEVNULL)
        subprocess.run([exe, "glyphs", gj], check=True, timeout=300, stdout=subprocess.DEVNULL)
        now = _json.load(open(tj, encoding="utf-8"))
        frozen = _json.load(open(os.path.join(common.ROOT, "verifpy", "catalogue_tables.json"), encoding="utf-8"))
        for key in sorted(set(now) | set(frozen)):
            if now.get(key) != frozen.get(key):
                diffs.append("catalogue table '%s' differs from spec/CatalogueTables.tla" % key)
        r = subprocess.run([sys.executable, os.path.join(common.ROOT, "tools", "gen_unicode_glyphs.py"), gj, gt],
                           capture_output=True, text=True, timeout=300)
        if r.returncode != 0 or open(gt).read() != open(os.path.join(common.ROOT, "spec", "UnicodeGlyphs.tla")).read():
            diffs.append("Unicode glyph table differs from spec/UnicodeGlyphs.tla")
    except (subprocess.SubprocessError, OSError, ValueError) as e:
        diffs.append("table dump failed: %s" % e)
    run.notes["frozen_tables_compared"] = ["circles", "quarter", "half", "three_quarters", "unicode glyphs"]
    run.notes["frozen_tables_differ"] = diffs
    for x in diffs:
        run.drift += 1
        if len(run.drift_samples) < 5:
            run.drift_samples.append({"frozen_data": x})


def c13(tier):
    run = Run("C13", tier)
    cat = _json.load(open(os.path.join(common.ROOT, "verifpy", "catalogue.json"), encoding="utf-8"))
    run.rule = ("model: for all 22 catalogue entries x offsets 0..3 x 0..3 the circle given by the entry's documented "
                "parameters satisfies the independent CircleOracle (radius from the drawing's width, horizontal "
                "extent, every character within 20 lattice units of the circle) - TLC; each behaviour is replayed; "
                "code: 22 drawings x %s placements, alone, with unrelated content below, and with one label character in a "
                "blank cell of the drawing's rows (inside or beside it, not touching it), and with many words / quoted strings "
                "left and right of it on its own rows; TLC checks the input is "
                "the placed drawing and CircleOracle on the single circle element. every case is non-trivial"
                % ("a stratified sample of offsets in 0..60 x 0..40" if tier == "quick" else "all offsets 0..60 x 0..40"))
    r = common.rng("C13")
    cfg = simple_cfg("MC_C13", {"MaxK": 3, "MaxN": 3}, ["ModelC13", "EdgeFlagMatchesShape", "Emit"])
    res = run.model("MC_Circle", cfg)
    frozen_data_drift(run)
    beh = common.tla_json_strings(res["lines"], "REPLAY")
    texts = [rows_text(b["rows"]) for b in beh]
    obs = observe.observe([{"input": t} for t in texts], tag="C13A")
    for b, t, o in zip(beh, texts, obs):
        run.replayed += 1
        real = [(e["k"],) + tuple(v // 1000 for v in e["n"]) for e in o["doc"].get("elems", [])]
        if real != [tuple(b["out"][0])]:
            run.drift += 1
            run.drift_samples.append({"input": t, "model": b["out"], "real": real})
        run.add_event({"props": ["C13"], "rows": o["rows"], "doc": o["doc"], "circ": b["circ"]}, {"input": t, "circ": b["circ"]})
    run.validate()
    places = []
    if tier == "quick":
        for idx in range(22):
            for _ in range(40):
                places.append((idx, r.randint(0, 60), r.randint(0, 40)))
    else:
        for idx in range(22):
            for k in range(0, 61):
                for nn in range(0, 41):
                    places.append((idx, k, nn))
    cases = []
    for j, (idx, k, nn) in enumerate(places):
        body = "\n" * nn + "\n".join(" " * k + x for x in cat[idx])
        extra = 1 if j % 3 == 0 else 0
        if extra:
            body = body + "\n\n" + r.choice(["+--+\n|  |\n+--+", "hello -->", "  /\n /", "*---o"])
        cases.append((body, {"idx": idx + 1, "k": k, "n": nn, "extra": extra, "lx": 0, "ly": 0, "lch": 0}))
    # one plain label character in a blank cell of the drawing's rows, not touching the drawing: inside a large
    # drawing, in a corner of its bounding box, or beside it
    for j, (idx, k, nn) in enumerate(places):
        if j % (2 if tier == "quick" else 7):
            continue
        D = cat[idx]
        wmax = max(len(x) for x in D)
        for _try in range(30):
            ly = nn + r.randrange(len(D))
            lx = r.randint(max(k - 2, 0), k + wmax + 1)
            row = " " * k + D[ly - nn]
            cells = [(k + x, nn + y) for y, dr in enumerate(D) for x, ch in enumerate(dr) if ch != " "]
            # "unrelated content elsewhere": the label does not touch the drawing (a touching character shares the
            # drawing's span and is part of what is matched against the catalogue)
            if (lx >= len(row) or row[lx] == " ") and all(abs(cx - lx) > 1 or abs(cy - ly) > 1 for cx, cy in cells):
                lch = r.choice(gen.LABELS)
                rows = [" " * k + x for x in D]
                rw = rows[ly - nn].ljust(lx + 1)
                rows[ly - nn] = rw[:lx] + lch + rw[lx + 1:]
                cases.append(("\n" * nn + "\n".join(rows), {"idx": idx + 1, "k": k, "n": nn, "extra": 2, "lx": lx, "ly": ly, "lch": ord(lch)}))
                break
    # unrelated words left and right of the drawing on its own rows, two or more blank cells away: a row of many
    # separate words (more groups than any look-back window), a quoted string, also with a zero-width character
    for j, (idx, k, nn) in enumerate(places):
        if j % (4 if tier == "quick" else 9):
            continue
        D = cat[idx]
        wmax = max(len(x) for x in D)
        rows = [(" " * k + x).ljust(k + wmax) for x in D]
        for y in range(len(rows)):
            if r.random() < 0.6:
                rows[y] += "  " + " ".join(r.choice(gen.LABELS) for _ in range(r.choice([3, 18, 25])))
            if k >= 8 and r.random() < 0.5:
                left = r.choice(['"e\u0301z"', "ab", '"a b"', "Z z", '"一"', "一二", "ᄀ", "é"])
                wcells = sum(2 if common_wide(c) else 1 for c in left)
                if wcells + 2 <= k:
                    rows[y] = left + rows[y][wcells:]
        cases.append(("\n" * nn + "\n".join(x.rstrip() for x in rows), {"idx": idx + 1, "k": k, "n": nn, "extra": 3, "lx": 0, "ly": 0, "lch": 0}))
        if j % 8 == 0:
            # the drawing alone on the page, a legend below it (extra = 1: only things below a blank row)
            cases.append(("\n" * nn + "\n".join(" " * k + x for x in D) + "\n\n# Legend:\na = {fill:red}\n",
                          {"idx": idx + 1, "k": k, "n": nn, "extra": 1, "lx": 0, "ly": 0, "lch": 0}))
    # look-alikes above the drawing, on the same page: the same drawing with one row moved by a column, with one
    # character changed or missing, a smaller / larger catalogue entry, other arcs - whatever is decided about them must not
    # touch the drawing below (extra = 4: anything above, one blank row in between)
    for j, (idx, k, nn) in enumerate(places):
        if j % (5 if tier == "quick" else 9):
            continue
        D = list(cat[idx])
        kind = j % 4
        if kind == 0 and len(D) > 1:
            y = r.randrange(len(D))
            decoy = [(" " + x if i_ == y else x) for i_, x in enumerate(D)]
        elif kind == 1:
            y = r.randrange(len(D))
            xs = [x_ for x_, ch in enumerate(D[y]) if ch != " "]
            x_ = r.choice(xs)
            decoy = [(x[:x_] + r.choice([" ", "-", "|", "a"]) + x[x_ + 1:] if i_ == y else x) for i_, x in enumerate(D)]
        elif kind == 2:
            decoy = list(cat[r.randrange(22)])
        else:
            decoy = gen.catalogue_art(r)
        dk = r.choice([k, k, max(0, k - 1), k + 1, r.randint(0, 20)])
        above = [" " * dk + x for x in decoy]
        n2 = len(above) + 1
        body = "\n".join(x.rstrip() for x in above) + "\n\n" + "\n".join(" " * k + x for x in cat[idx])
        cases.append((body, {"idx": idx + 1, "k": k, "n": n2, "extra": 4, "lx": 0, "ly": 0, "lch": 0}))
    # the drawing in a picture of other shapes, touching none of them: inside a frame, between long diagonals, in a box under a
    # diagonal (it can lie in the bounding boxes of several of them at once) - one circle, once (extra = 5)
    for j in range(60 if tier == "quick" else 3000):
        idx = r.choice([0, 1, 1, 3, 4, 5, 6, 8] + list(range(22)))
        got = gen.scene_with_block(r, list(cat[idx]))
        if got is None:
            continue
        t5, k5, n5 = got
        if j % 3 == 0 and idx <= 9:
            t5, k5, n5 = gen.between_diagonals(r, list(cat[idx]))      # inside the bounding boxes of two separate shapes
        if j % 2:
            t5, k5, n5 = gen.framed(t5), k5 + 2, n5 + 2
        if j % 5 == 0:
            # ... and inside shapes that are recognised before it: a quarter arc of the catalogue and a box, overlapping
            idx = r.choice([0, 1, 2])
            t5, k5, n5 = gen.arc_and_box_page(r, list(cat[idx]), frame=(j % 10 == 0))
        cases.append((t5, {"idx": idx + 1, "k": k5, "n": n5, "extra": 5, "lx": 0, "ly": 0, "lch": 0}))
    obs = observe.observe([{"input": t} for t, _ in cases], tag="C13B")
    for (t, circ), o in zip(cases, obs):
        run.add_event({"props": ["C13"], "rows": o["rows"], "doc": o["doc"], "circ": circ}, {"input": t, "circ": circ})
    dressed_events(run, r, [(t, {"props": ["C13"], "circ": circ}, {"circ": circ}) for (t, circ) in cases], 4, "C13D")
    run.samples.append({"input": cases[7][0], "circ": cases[7][1]})
    run.validate(shard=1500)
    run.assumptions = std_assumptions() + ["'about one cell' is read as 20 lattice units (1 1/4 cell heights)",
                                           "the 22 drawings are frozen in spec/Catalogue.tla from the pinned commit"]
    return run.finish()


PLANS.update({"C13": c13})


# ------------------------------------------------------------------------------------------
ARROWS = {
    "r": [(">", "-"), ("▶", "─"), ("►", "─"), ("▸", "─")],
    "l": [("<", "-"), ("◀", "─"), ("◄", "─"), ("◂", "─")],
    "u": [("^", "|"), ("▲", "│"), ("▴", "│")],
    "d": [("v", "|"), ("V", "|"), ("▼", "│"), ("▾", "│")],
    "dr": [("v", "\\"), ("V", "\\"), ("v", "╲"), ("V", "╲")],
    "dl": [("v", "/"), ("V", "/"), ("v", "╱"), ("V", "╱")],
    "ul": [("^", "\\"), ("^", "╲")],
    "ur": [("^", "/"), ("^", "╱")],
}


def arrow_text(d, L, k, n, g, body):
    pre = [""] * n
    sp = " "
    if d == "r":
        rows = [sp * k + body * L + g]
    elif d == "l":
        rows = [sp * k + g + body * L]
    elif d == "u":
        rows = [sp * k + g] + [sp * k + body for _ in range(L)]
    elif d == "d":
        rows = [sp * k + body for _ in range(L)] + [sp * k + g]
    elif d == "dr":
        rows = [sp * (k + i) + body for i in range(L)] + [sp * (k + L) + g]
    elif d == "dl":
        rows = [sp * (k + L - i) + body for i in range(L)] + [sp * k + g]
    elif d == "ul":
        rows = [sp * k + g] + [sp * (k + i + 1) + body for i in range(L)]
    else:
        rows = [sp * (k + L) + g] + [sp * (k + L - i - 1) + body for i in range(L)]
    return "\n".join(pre + rows)


def c14(tier):
    run = Run("C14", tier)
    maxlen = 12 if tier == "quick" else 40
    run.rule = ("arrow family: 8 directions x glyph variants (> < ^ v V and triangle glyphs) x lengths 1..%d x seeded "
                "offsets: ArrowOracle (one filled 3-vertex polygon, tip on the line's axis beyond its end and inside "
                "the glyph's cell, base straddling the axis); bullet family: * o O at the start, end or middle of a "
                "horizontal run of - ~ U+2500 U+2504, a vertical run of | : ! U+2502 or a diagonal run of / \\ U+2571 U+2572: BulletOracle (marker line of the "
                "documented kind ending at the bullet cell's centre, bullet not shown as text, dashed exactly when the "
                "run's character is); corner family: rounded outlines (. ' and , ` styles) of sizes up to %s with "
                "a stub: CornerOracle (four quarter arcs, endpoints are line ends, centre on the inner side). TLC "
                "checks the input is the claimed drawing and the oracle on the recorded document; the arrow/bullet/"
                "corner geometry is also an invariant of the glyph model for the directions it covers. "
                "every case is non-trivial" % (maxlen, "12x6" if tier == "quick" else "30x15"))
    r = common.rng("C14")
    cfg = simple_cfg("MC_C14", {"MaxLen": 4 if tier == "quick" else 10, "MaxK": 1}, ["ModelC14", "Emit"])
    res = run.model("MC_Arrow", cfg)
    beh = common.tla_json_strings(res["lines"], "REPLAY")
    btexts = [rows_text(b["rows"]) for b in beh]
    bobs = observe.observe([{"input": t} for t in btexts], tag="C14M")
    for b, t, o in zip(beh, btexts, bobs):
        run.replayed += 1
        if o["out"] != "return" or real_tuples(o["doc"]) != model_tuples(b["out"]):
            run.drift += 1
            if len(run.drift_samples) < 5:
                run.drift_samples.append({"input": t, "model": b["out"]})
        run.add_event({"props": ["C14arrow"], "rows": o["rows"], "doc": o["doc"], "arrow": b["arrow"]}, {"input": t, "arrow": b["arrow"]})
    cfgb = simple_cfg("MC_C14b", {"MaxLen": 4 if tier == "quick" else 10, "MaxK": 1, "HBodies": tla_set([45, 126, 9472, 9476]),
                                  "VBodies": tla_set([124, 58, 33, 9474])}, ["ModelC14b", "Emit"])
    resb = run.model("MC_Bullet", cfgb)
    behb = common.tla_json_strings(resb["lines"], "REPLAY")
    bt = [rows_text(b["rows"]) for b in behb]
    bo = observe.observe([{"input": t} for t in bt], tag="C14N")
    for b, t, o in zip(behb, bt, bo):
        run.replayed += 1
        if o["out"] != "return" or real_tuples(o["doc"]) != model_tuples(b["out"]):
            run.drift += 1
            if len(run.drift_samples) < 5:
                run.drift_samples.append({"input": t, "model": b["out"]})
        run.add_event({"props": ["C14bullet"], "rows": o["rows"], "doc": o["doc"], "bullet": b["bullet"]}, {"input": t, "bullet": b["bullet"]})
    # bullets and arrowheads in company: every neighbourhood (up to two neighbours) of a bullet or arrowhead character among
    # strokes, junctions, other bullets and arrowheads and a letter; where the model attaches the bullet / ends a line in an
    # arrowhead, the real document must (C14m)
    cfgm = write_cfg("MC_C14m", {"K": 2, "Centres": tla_set([111, 79, 42, 86, 118, 94, 60, 62]),
                                 "Around": tla_set([45, 124, 47, 92, 43, 111, 86, 42, 97] if tier == "quick" else
                                                   [45, 124, 47, 92, 43, 111, 79, 86, 118, 42, 97, 35, 58, 126, 39, 46])},
                     ["Emit"])
    resm = run.model("MC_Nbhd", cfgm, timeout=10000)
    behm = common.tla_json_strings(resm["lines"], "REPLAY")
    mt = [rows_text(b["rows"]) for b in behm]
    mo = observe.observe([{"input": t} for t in mt], tag="C14Q")
    for b, t, o in zip(behm, mt, mo):
        run.replayed += 1
        if o["out"] != "return" or real_tuples(o["doc"]) != model_tuples(b["out"]):
            run.drift += 1
            if len(run.drift_samples) < 5:
                run.drift_samples.append({"input": t, "model": b["out"]})
        markers = [[tp[3], tp[4], tp[6][4:]] for tp in b["out"] if tp[0] == "line" and str(tp[6]).startswith("end_marked")]
        polys = [[min(tp[1:-1][0::2]), min(tp[1:-1][1::2]), max(tp[1:-1][0::2]), max(tp[1:-1][1::2])] for tp in b["out"]
                 if tp[0] == "polygon" and len(tp) == 8]
        if markers or polys:
            run.add_event({"props": ["C14m"], "rows": o["rows"], "doc": o["doc"], "expect": {"markers": markers, "polys": polys}},
                          {"input": t, "expect": {"markers": markers, "polys": polys}})
    run.validate(shard=3000)
    cases = []
    lens = list(range(1, maxlen + 1))
    for d, gl in ARROWS.items():
        for (g, body) in gl:
            for L in lens:
                if tier == "quick" and L > 6 and L % 3:
                    continue
                k, n = r.randint(0, 5), r.randint(0, 3)
                t = arrow_text(d, L, k, n, g, body)
                cases.append((t, "C14arrow", "arrow", {"dir": d, "len": L, "k": k, "n": n, "g": ord(g), "body": ord(body)}))
    for ch in "*oO":
        for pos in ("start", "end", "mid"):
            for L in lens:
                if tier == "quick" and L > 6 and L % 3:
                    continue
                # the run is made of any horizontal / vertical line character, solid or dashed (a lone ':' or '!'
                # is text by the rules, so dashed vertical runs start at length 2)
                for hb in "-~─┄":
                    k, n = r.randint(0, 5), r.randint(0, 3)
                    row = " " * k + {"start": ch + hb * L, "end": hb * L + ch, "mid": hb * L + ch + hb * L}[pos]
                    cases.append(("\n" * n + row, "C14bullet", "bullet",
                                  {"ch": ord(ch), "pos": pos, "len": L, "k": k, "n": n, "dir": "h", "body": ord(hb)}))
                for db, d in (("\\", "b"), ("/", "s"), ("╲", "b"), ("╱", "s")):
                    k, n = r.randint(0, 5), r.randint(0, 3)
                    col = {"start": ch + db * L, "end": db * L + ch, "mid": db * L + ch + db * L}[pos]
                    rws = [" " * (k + i if d == "b" else k + len(col) - 1 - i) + c_ for i, c_ in enumerate(col)]
                    cases.append(("\n" * n + "\n".join(rws), "C14bullet", "bullet",
                                  {"ch": ord(ch), "pos": pos, "len": L, "k": k, "n": n, "dir": d, "body": ord(db)}))
                for vb in "|:!│":
                    if vb in ":!" and L < 2:
                        continue
                    k, n = r.randint(0, 5), r.randint(0, 3)
                    col = {"start": ch + vb * L, "end": vb * L + ch, "mid": vb * L + ch + vb * L}[pos]
                    cases.append(("\n" * n + "\n".join(" " * k + c_ for c_ in col), "C14bullet", "bullet",
                                  {"ch": ord(ch), "pos": pos, "len": L, "k": k, "n": n, "dir": "v", "body": ord(vb)}))
    ws = range(1, 13) if tier == "quick" else range(1, 31)
    hs = range(1, 7) if tier == "quick" else range(1, 16)
    for w in ws:
        for h in hs:
            if tier == "quick" and (w + h) % 2:
                continue
            for (tl, tr, bl, br, off) in [(".", ".", "'", "'", 0), (",", ".", "`", "'", 0), (".", ".", "'", "'", 1), (".", ".", "’", "’", 0)]:
                if off and w < 3:
                    continue
                k, n = r.randint(0, 4), r.randint(0, 2)
                rows = [" " * (k + off) + tl + "-" * (w - 2 * off) + tr]
                for i in range(h):
                    rows.append(" " * k + "|" + " " * w + "|" + ("--" if i == 0 else ""))
                rows.append(" " * (k + off) + bl + "-" * (w - 2 * off) + br)
                cases.append(("\n" * n + "\n".join(rows), "C14corner", "outline",
                              {"k": k, "n": n, "w": w, "h": h, "tl": ord(tl), "tr": ord(tr), "bl": ord(bl), "br": ord(br), "off": off}))
    obs = observe.observe([{"input": c[0]} for c in cases], tag="C14A")
    for (t, pred, key, info), o in zip(cases, obs):
        run.add_event({"props": [pred], "rows": o["rows"], "doc": o["doc"], key: info}, {"input": t, key: info})
    dressed_events(run, r, [(t, {"props": [pred], key: info}, {key: info}) for (t, pred, key, info) in cases], 4, "C14D")
    run.samples += [{"input": cases[3][0], "arrow": cases[3][3]}, {"input": cases[-1][0], "outline": cases[-1][3]}]
    run.validate(shard=1500)
    run.assumptions = std_assumptions()
    return run.finish()


PLANS.update({"C14": c14})


# ------------------------------------------------------------------------------------------
import hashlib as _hashlib


OWNISH = ["filled_box", "solid_red", "nofill", "broken", "backdrop1", "bg_filled", "svgbob", "text", "line", "rect", "end_marked_x",
          "start_marked_circle", "filled", "solid", "nofill2", "arrow", "circle"]


def rand_ident(r, maxlen=8):
    if r.random() < 0.12:
        return r.choice(OWNISH)          # names that begin like svgbob's own classes are names like any other
    first = r.choice("abcdefghijklmnpqrstuwyz_ABCDEFG")
    return first + "".join(r.choice("abcdefghijklmnpqrstuwyz0123456789_") for _ in range(r.randint(0, maxlen - 1)))


def rand_decl(r):
    alpha = "abcfilstroke:;#0123456789 -.,()%\"'\n\t<>&!/*@"
    d = "".join(r.choice(alpha) for _ in range(r.randint(0, 30)))
    if r.random() < 0.3:
        # text that looks like an entity or a character reference is ordinary declaration text
        j = r.randint(0, len(d))
        d = d[:j] + r.choice(["&amp;", "&lt;", "&gt;", "&quot;", "&#39;", "&#x41;", "&nbsp;", "&amp;amp;", "# Legend:", "\n# Legend:\n", "url(a&b<c)"]) + d[j:]
    return d


def clsmap_of(doc):
    m = {}
    for e in doc.get("elems", []):
        for c in e["cls"]:
            m[c] = [ord(x) for x in c]
    return m


def nested_boxes(r, depth):
    """nested sharp/rounded boxes with tags; returns (text, tags)"""
    # innermost content
    tags = []
    inner_w = r.randint(8, 14)
    names = [rand_tagname(r) for _ in range(r.randint(1, 2))]
    tagtxt = "{" + ",".join(names) + "}"
    inner_w = max(inner_w, len(tagtxt) + 2)
    label = r.choice(["", "abc", "Hello", "x1"])
    # where the tag stands in the innermost box: one blank from the left wall, flush left, flush right, or filling the
    # box from wall to wall
    place = r.choice(["in", "in", "left", "right", "tight"])
    if place == "tight":
        inner_w = len(tagtxt)
    c_tag = {"in": 1, "left": 0, "tight": 0, "right": inner_w - len(tagtxt)}[place]
    lines = [(" " * c_tag + tagtxt).ljust(inner_w)]
    if place == "right" and r.random() < 0.7:
        # a word in the tag's own row, left of it (one blank between them): letters of several scripts and symbols whose
        # width some tables call ambiguous - each takes one cell here
        room = c_tag - 1
        if room >= 2:
            script_ = r.choice(["abc", "дфж", "éüñ", "αβγ", "★☆", "①②③", "§±°·", "…“”", "★①§…"])
            wd_ = "".join(r.choice(script_) for _ in range(r.choice([room, room, r.randint(2, room)])))
            lines[0] = (wd_ + " " * (c_tag - len(wd_)) + tagtxt).ljust(inner_w)
    tag_pos = [(0, c_tag, names)]          # (row, col) relative to the content block
    if label:
        lines.append((" " + label).ljust(inner_w)[:inner_w])
    if r.random() < 0.3:
        # a second, separate tag in the same innermost shape: on a row of its own or, with room, on the tag's row
        n2 = [rand_tagname(r)]
        t2 = "{" + n2[0] + "}"
        if place == "in" and len(lines[0].rstrip()) + 2 + len(t2) <= inner_w and r.random() < 0.5:
            c2 = len(lines[0].rstrip()) + 2
            lines[0] = (lines[0].rstrip() + "  " + t2).ljust(inner_w)
            tag_pos.append((0, c2, n2))
        elif len(t2) + 1 <= inner_w:
            lines.append((" " + t2).ljust(inner_w))
            tag_pos.append((len(lines) - 1, 1, n2))
    block = lines
    for d in range(depth):
        style = r.choice(["sharp", "round", "round2", "uni"])
        tl, tr, bl, br, hz, vt = {"sharp": "++++-|", "round": "..''-|", "round2": ",.`'-|", "uni": "┌┐└┘─│"}[style]
        w = len(block[0])
        extra = []
        if d > 0:
            nm = [rand_tagname(r)]
            t2 = "{" + nm[0] + "}"
            if len(t2) + 2 <= w:
                extra = [(" " + t2).ljust(w)]
        new = [tl + hz * w + tr]
        for ln in extra + block:
            new.append(vt + ln + vt)
        new.append(bl + hz * w + br)
        shift_r = 1 + len(extra)
        tag_pos = [(rr + shift_r, cc + 1, nn) for (rr, cc, nn) in tag_pos]
        if extra:
            tag_pos.append((1, 2, nm))
        # pad around so that the next level has a margin
        block = [" " + x + " " for x in new]
        tag_pos = [(rr, cc + 1, nn) for (rr, cc, nn) in tag_pos]
    return block, tag_pos


def rand_tagname(r):
    return r.choice("abcdefghijklmnpqrstuwyz") + "".join(r.choice("abcdefghijklmnpqrstuwyz0123456789") for _ in range(r.randint(0, 4)))


def c16(tier):
    run = Run("C16", tier)
    n = 400 if tier == "quick" else 30000
    run.rule = ("legend family: 0..6 entries (random identifiers x declaration strings of any characters except braces, "
                "incl. newlines, quotes, markup characters x three spacings around '=') after a random drawing, header "
                "and trailing-blank variants: C16legend (TLC checks the input is the claimed legend, nothing below the "
                "header is drawn, and the style text ends with the rules '.svgbob .name{ decl }' in order); tag family: "
                "boxes (sharp, rounded, box-drawing) nested to depth 3, catalogue circles, tags with 1-2 names inside "
                "each level, next to other text, and outside all shapes: C16tags (the innermost enclosing rect/circle "
                "carries the names, the tag is not rendered, outside tags stay text, no name leaks to another "
                "element, other text unaffected). non-trivial = at least one entry / one tag")
    r = common.rng("C16")
    cfg = simple_cfg("MC_C16", {"MaxW": 6, "MaxLen": 7}, ["FitSameAtEveryScale", "DeepestFirst"])
    run.model("MC_Enclose", cfg)
    # the enclosure stage inside the whole-conversion model: every interior string over { } , a b blank in a box
    # and in two nested boxes; replayed with class names compared
    cfgt = simple_cfg("MC_C16t", {"N": 4 if tier == "quick" else 5, "Alphabet": tla_set([32, 123, 125, 44, 97, 98])},
                      ["ExactTagStylesInnermost", "Emit"])
    rest = run.model("MC_Tags", cfgt, timeout=5000)
    run.notes["full_documents_replayed"] = replay_full_docs(run, rest, lambda t: [], "C16F")
    cases = []
    for i in range(n):
        art = r.choice(["", "ab", gen.box(r.randint(1, 6), 1), gen.random_grid(r, 6, 2, "-|+ab ", 0.5)])
        if i % 9 == 4:
            # the marker's text earlier in the drawing, where it is not a header: in a sentence, inside a quoted string
            art = r.choice(["see # Legend: below", '"# Legend:" --', "a # Legend:b\n+--+", "x  # Legend: y\n# Legendary"]) + "\n" + art
        art = "\n".join(x.rstrip() for x in art.split("\n"))
        ents = []
        for _ in range(r.randint(0, 6)):
            ents.append((rand_ident(r), rand_decl(r), r.randint(0, 2)))
        header = r.choice(["# Legend:", "# Legend:  ", "#Legend:", "# Legend:\t"]) if False else r.choice(["# Legend:", "# Legend:  ", "# Legend:\t"])
        body = []
        for (nm, dc, eq) in ents:
            body.append({0: "%s = {%s}", 1: "%s={%s}", 2: "%s  =\t {%s}"}[eq] % (nm, dc))
        t = art + "\n" + header + "\n" + "\n".join(body) + r.choice(["", "\n", "\n\n  \n"])
        if not ents and r.random() < 0.5:
            t = art + "\n" + header.rstrip("\t ") + r.choice(["", " ", "\t"])        # the header is the very last line, no line ending
        cases.append((t, "C16legend", "legend",
                      {"entries": [[[ord(c) for c in nm], [ord(c) for c in dc], eq] for (nm, dc, eq) in ents]}))
    # legends of many entries (hundreds of rules, several KiB)
    for nent in (40, 180, 400):
        ents = [("k%d" % j_, "fill: #%06x; stroke-width: %d" % ((j_ * 2654435761) % 0xFFFFFF, j_ % 7), 0) for j_ in range(nent)]
        t = "o--> ab\n# Legend:\n" + "\n".join("%s = {%s}" % (nm, dc) for (nm, dc, _) in ents) + "\n"
        cases.append((t, "C16legend", "legend", {"entries": [[[ord(c) for c in nm], [ord(c) for c in dc], eq] for (nm, dc, eq) in ents]}))
    cat = _json.load(open(os.path.join(common.ROOT, "verifpy", "catalogue.json"), encoding="utf-8"))
    for i in range(n):
        kind = i % 4
        if kind < 3:
            block, tag_pos = nested_boxes(r, r.randint(1, 3))
            rows = list(block)
            tags = [{"r": rr, "c": cc, "names": [[ord(c) for c in nm] for nm in nn], "inside": 1} for (rr, cc, nn) in tag_pos]
            # a tag outside all shapes, on its own row below, separated by a blank row
            if r.random() < 0.6:
                nm = rand_tagname(r)
                word = r.choice(["", "", "abc ", "ддддд ", "éüñß ", "一二 ", "x "])
                wcols = sum(2 if c in gen.WIDE else 1 for c in word)
                rows += ["", "  " + word + "{" + nm + "}"]
                tags.append({"r": len(rows) - 1, "c": 2 + wcols, "names": [[ord(c) for c in nm]], "inside": 0})
            k, nn_ = r.randint(0, 3), r.randint(0, 2)
            rows = [""] * nn_ + [" " * k + x for x in rows]
            for tg in tags:
                tg["r"] += nn_
                tg["c"] += k
            cases.append(("\n".join(x.rstrip() for x in rows), "C16tags", "tags", tags))
        else:
            idx = r.randint(7, 21)          # circles wide enough to hold a tag
            D = [list(x) for x in cat[idx]]
            nm = rand_tagname(r)[:3]
            tagtxt = "{" + nm + "}"
            mid = len(D) // 2
            w = max(len(x) for x in D)
            c0 = (w - len(tagtxt)) // 2
            row = D[mid] + [" "] * (w - len(D[mid]))
            if all(ch == " " for ch in row[c0:c0 + len(tagtxt)]) and c0 > 1:
                row[c0:c0 + len(tagtxt)] = list(tagtxt)
                D[mid] = row
                cases.append(("\n".join("".join(x).rstrip() for x in D), "C16tags", "tags",
                              [{"r": mid, "c": c0, "names": [[ord(c) for c in nm]], "inside": 1}]))
    for i in range(max(10, n // 10)):
        idx = r.randint(8, 21)
        D = [list(x) for x in cat[idx]]
        w = max(len(x) for x in D)
        nm, nm2 = rand_tagname(r)[:3], rand_tagname(r)
        tagtxt = "{" + nm + "}"
        mid = len(D) // 2
        c0 = (w - len(tagtxt)) // 2
        row = D[mid] + [" "] * (w - len(D[mid]))
        if not (all(ch == " " for ch in row[c0:c0 + len(tagtxt)]) and c0 > 1):
            continue
        row[c0:c0 + len(tagtxt)] = list(tagtxt)
        D[mid] = row
        inner = ["".join(x).ljust(w) for x in D]
        # the circle sits inside a box that has its own tag on the first interior row
        bw = w + 4
        t2 = "{" + nm2 + "}"
        rows = ["+" + "-" * bw + "+", "| " + t2.ljust(bw - 1) + "|", "|" + " " * bw + "|"]
        for ln in inner:
            rows.append("|  " + ln + "  |")
        rows += ["|" + " " * bw + "|", "+" + "-" * bw + "+"]
        tags = [{"r": 1, "c": 2, "names": [[ord(c) for c in nm2]], "inside": 1},
                {"r": 3 + mid, "c": 3 + c0, "names": [[ord(c) for c in nm]], "inside": 1}]
        cases.append(("\n".join(rows), "C16tags", "tags", tags))
    # a quoted string (also of double-width characters) left of the tag, in the tag's own row of a box: the tag is the box's
    for i in range(max(24, n // 10)):
        nm = rand_tagname(r)[:r.choice([1, 1, 3])]
        tagtxt = "{" + nm + "}"
        # (long enough for the tag to stand within the columns a miscounted extent of the quoted text would claim: half as
        # many again as it has)
        q = '"' + "".join(r.choice(gen.WIDE[:10] if i % 2 else "ab cd") for _ in range(r.choice([1, 3, 6, 7, 8, 9, 10, 12]))) + '"'
        qcols = sum(2 if common_wide(c) else 1 for c in q)
        gap = r.choice([1, 1, 2, 3])
        inner = " " + q + " " * gap + tagtxt + " " * r.randint(0, 3)
        icols = 1 + qcols + gap + len(tagtxt) + (len(inner) - len(inner.rstrip(" ")))
        style = r.choice(["++++-|", "..''-|"])
        rows = [style[0] + style[4] * icols + style[1], style[5] + inner + style[5], style[5] + " " * icols + style[5], style[2] + style[4] * icols + style[3]]
        cases.append(("\n".join(rows), "C16tags", "tags", [{"r": 1, "c": 1 + 1 + qcols + gap, "names": [[ord(c) for c in nm]], "inside": 1}]))
    obs = observe.observe([{"input": c[0], "want_style": True} for c in cases], tag="C16A")
    for (t, pred, key, info), o in zip(cases, obs):
        ev = {"props": [pred], "rows": o["rows"], "doc": o["doc"], key: info}
        if pred == "C16tags":
            ev["clsmap"] = clsmap_of(o["doc"])
        run.add_event(ev, {"input": t, key: info})
    dressed_events(run, r, [(t, {"props": [pred], key: info}, {key: info}) for (t, pred, key, info) in cases if pred == "C16tags"], 3, "C16D",
                   post=lambda ev, o: ev.update({"clsmap": clsmap_of(o["doc"])}))
    run.samples += [{"input": cases[1][0]}, {"input": cases[n + 1][0], "tags": cases[n + 1][3]}]
    run.validate(shard=800)
    # "from a '# Legend:' line to the end the input is never drawn": any legend-free text and the same text with a legend
    # below it give the same elements on the same page (shared pool and this property's own drawings)
    groups = []
    for t in pool(r, tier, lambda t: gen.plain_lines(t) and not gen.has_legend(t), 500) + [c[0] for c in cases if c[1] == "C16tags"][::3]:
        ents = "".join("%s = {%s}\n" % (rand_ident(r), rand_decl(r).replace("# Legend:", "")) for _ in range(r.randint(0, 3)))
        d = t + "\n" + "\n" * r.choice([0, 0, 1, 2]) + r.choice(["# Legend:\n", "# Legend:  \n", "# Legend:\r\n"]) + ents
        groups.append([({"input": t}, None), ({"input": d if ents else d.rstrip("\r\n")}, {"kind": "legend", "of": 1})])
    rel_events(run, groups, "C16app")
    run.validate(shard=1200)
    # stage-level conformance of the tag family, the enclosure stage included (PipelineTrace "enclose": the forest the code
    # built against Stages!EncloseAll on the elements it was given)
    from . import stages
    stages.conformance(run, [c[0] for c in cases if c[1] == "C16tags"][:300 if tier == "quick" else 20000])
    # the model forwards on the legend and tag families themselves
    full_conformance(run, [c[0] for c in cases], "C16G", 250 if tier == "quick" else 6000)
    run.assumptions = std_assumptions() + ["'lying inside' is read as: the tag's cells lie inside the shape's bounding box"]
    return run.finish()


def c18(tier):
    run = Run("C18", tier)
    n = 150 if tier == "quick" else 5000
    run.rule = ("for each input of a mixed corpus (incl. legends and tags) the default conversion is the base event; "
                "variants: the other entry points with default settings (byte-identical), the compressed form, all 8 "
                "include_* combinations, random colour/font/font-size/stroke settings, override sizes; TLC checks "
                "SettingsVariant on the recorded documents (same elements in the same order, same canvas, exactly the "
                "switched element added/removed, only the style text changed, only root/backdrop size changed). "
                "every variant event is non-trivial")
    r = common.rng("C18")
    cfg = simple_cfg("MC_C18", {}, ["AssembleOrder", "SwitchesIndependent"])
    run.model("MC_Assemble", cfg)
    corpus = [t for t in gen.mixed_corpus(r, n) if t.strip()]
    corpus += [gen.box(8, 1, "sharp", "{a}") + "\n# Legend:\na = {fill:red}\n", "o-->*\n# Legend:\nx={stroke:blue}",
               '\n   "hello  world"\n', '"only quoted"', '"label"\n# Legend:\nb = {fill:blue}\n', "# Legend:\nc = {x:y}\n",
               '  "q1" "q2"\n\n "q3"']
    # every tenth drawing also carries a quoted string, a tag or a legend (features that take their own path through
    # the assembly, next to ordinary fragments)
    for i in range(0, len(corpus), 10):
        corpus.append(corpus[i] + "\n" + r.choice([' "quoted |+ text" --', '+-----+\n| {k} |\n+-----+  "q"', ' "一二" ab\n# Legend:\nk = {fill:red}']))
    groups = []
    cols = ["red", "#00ff00", "rgb(1,2,3)", "blue", "none", "x\"y", "it's", "transparent", "currentColor", "white", "", "rgba(0,0,0,0)"]
    # inputs that begin with an invisible character (a byte order mark is an ordinary cell character), a blank line or a blank
    for i in range(0, len(corpus), 12):
        corpus.append(r.choice(["\ufeff", "\u200b", "\n", " ", "\t"]) + corpus[i])
    # quoted labels with blanks at their edges (the text a switch must not touch)
    corpus += ['"  -> | <-" --', '+------+\n|" x  "|\n+------+', '" lead"\n"trail "\n"  both  " *--']
    corpus += ['+-----+\n|"   "|\n+-----+', 'a " " b', '"  "', '+----------+\n|{filled}  |\n+----------+', '.---------.\n| {nofill} |\n\'---------\'  ( {broken} )',
               '+------------+\n| {bg_filled,solid} |\n+------------+'.replace("+------------+", "+-------------------+")]
    corpus = gen.dedup(corpus + pool(r, tier, None, 150))
    for t in corpus:
        g = [({"input": t, "want_style": True}, None)]
        j = 1
        for entry in ("pretty", "settings"):
            g.append(({"input": t, "entry": entry, "settings": {}, "want_style": True}, {"kind": "same", "of": j}))
            j += 1
        g.append(({"input": t, "entry": "compressed", "want_style": True}, {"kind": "compressed", "of": j}))
        j += 1
        combos = [(a, b, c) for a in (1, 0) for b in (1, 0) for c in (1, 0)]
        if tier == "quick":
            combos = r.sample(combos, 3)
        for (a, b, c) in combos:
            g.append(({"input": t, "entry": "settings", "want_style": True,
                       "settings": {"include_styles": bool(a), "include_defs": bool(b), "include_backdrop": bool(c)}},
                      {"kind": "toggle", "of": j, "styles": a, "defs": b, "backdrop": c}))
            j += 1
        c3 = r.sample(cols, 3)            # three different colours, so that a swap shows
        st = {"fill_color": c3[0], "background": c3[1], "stroke_color": c3[2],
              "font_family": r.choice(["Arial", "monospace", "Fira Code, monospace"]),
              # numbers over several orders of magnitude: none of them is a length of the drawing
              "font_size": r.choice([r.randint(1, 40), 1, 2, 72, 200, 1000]),
              "stroke_width": r.choice([0.5, 1.0, 2.0, 3.25, 0.125, 16.0, 17.0, 20.0, 64.0, 250.0])}
        sw = st["stroke_width"]
        vals = {"stroke": c3[2], "fill": c3[0], "back": c3[1], "font": st["font_family"], "size": str(st["font_size"]),
                "width": str(int(sw)) if sw == int(sw) else repr(sw)}
        g.append(({"input": t, "entry": "settings", "settings": st, "want_style": True},
                  {"kind": "cosmetic", "of": j, "vals": {k: [ord(ch) for ch in v] for k, v in vals.items()}}))
        j += 1
        W, H = float(r.randint(1, 2000)), float(r.randint(1, 2000))
        g.append(({"input": t, "entry": "override", "settings": {}, "w": W, "h": H, "want_style": True},
                  {"kind": "override", "of": j, "w": int(W * 1000), "h": int(H * 1000)}))
        groups.append(g)
    cases = [c for g in groups for (c, _) in g]
    obs = observe.observe(cases, tag="C18R")
    i = 0
    for g in groups:
        for (c, rel) in g:
            o = obs[i]
            i += 1
            sha = _hashlib.sha256((o["svg"] or "").encode("utf-8", "surrogatepass")).hexdigest()
            ev = {"props": ["C18"] if rel else [], "rows": o["rows"], "doc": o["doc"], "sha": sha}
            if rel:
                ev["rel"] = rel
            run.add_event(ev, {"input": c["input"], "entry": c.get("entry", "to_svg"), "settings": c.get("settings"), "rel": rel,
                               "bases": [g[0][0]] if rel else None})
    run.samples.append({"input": corpus[0], "variants": [g[1] for g in groups[0][1:]]})
    run.validate(shard=600)
    run.assumptions = std_assumptions()
    return run.finish()


PLANS.update({"C16": c16, "C18": c18})


# ------------------------------------------------------------------------------------------
ENTRIES = ["to_svg", "pretty", "compressed", "settings", "override"]


def hostile_inputs(r, n):
    out = ["", " ", "\n", "\n\n\n", "\t", "\r\n", "\r", '"', '""', '"""', '\\"', '"\\', "{", "}", "{}", "{a", "a}", "{a,}",
           "# Legend:", "# Legend:\n", "# Legend:\na", "# Legend:\na = ", "# Legend:\na = {", "# Legend:\n= {x}", "x # Legend:\na={b}",
           "\x00", "a\x00b", "​", "é", "\U0001F600", "﻿", "一" * 50, "(" * 40, ")" * 40, "\\" * 30, "/" * 30,
           "+" * 60, ("+" * 30 + "\n") * 20, ("|" * 30 + "\n") * 20, (".'" * 20 + "\n") * 10, "o" * 50, "*" * 50, "#" * 50,
           "_" * 80, "=" * 80, "<" * 40 + ">" * 40, "^\n" * 30, "v\n" * 30, "V" * 30]
    # every drawing glyph at the start of a staircase of k strokes (contact groups of every size 2..12 that contain
    # the glyph's own fragments), optionally with an arrowhead between glyph and staircase
    for gi, g in enumerate(gen.FULL):
        for k in range(1, 11):
            for pi, pre in enumerate(["", ">", "-"]):
                rows = [g + pre + "--+"]
                x = len(rows[0]) - 1
                for j in range(k - 1):
                    if j % 2 == 0:
                        rows.append(" " * x + "|")
                    else:
                        rows.append(" " * x + "+--" + ("+" if j < k - 2 else ""))
                        x += 3
                out.append("\n".join(rows))
    # every ordered pair of drawing glyphs side by side (and, in the larger tier, one above the other): one conversion
    # per pair, so that a pair that panics is attributed (one test per pair of entries of the glyph tables)
    for g1 in gen.FULL:
        for g2 in gen.FULL:
            out.append(g1 + g2)
            if n >= 5000:
                out.append(g1 + "\n" + g2)
    # degenerate quoted strings, braces and tags INSIDE shapes (what lies in a shape's bounds goes through the
    # enclosure stage and the tag parser)
    for q in ['""', '"', '"a', '"" ""', '"{}"', '{}', '{', '}', '{,}', '{a,}', '"\\"', '{"}', '"{a}"', "''", '{ }', '{a b}']:
        out.append("+--------+\n| " + q.ljust(6) + " |\n+--------+")
        out.append(".--------.\n| " + q.ljust(6) + " |\n'--------'  " + q)
        out.append("   _______\n ,'       `.\n/   " + q.ljust(6) + "  \\\n\\           /\n `._______.'")
        out.append("\\\n \\  " + q + "\n  \\\n   \\")
    chunks = gen.bundled_chunks()
    pool = gen.FULL + gen.LABELS + gen.WIDE + gen.LATIN + "\"{}\\#=:, \t" + "​́\x01\x7f￾" + "\U0001F600\U00020000"
    for i in range(n):
        kind = i % 8
        if kind == 7:
            # one or two glyphs in focus among plain connectors: every rare glyph meets dense neighbourhoods
            focus = "".join(r.choice(gen.FULL) for _ in range(r.randint(1, 2)))
            out.append(gen.random_grid(r, r.randint(3, 12), r.randint(2, 6), focus * 3 + "-|+/\\.'>", r.choice([0.6, 0.9])))
        elif kind == 0:
            out.append(gen.random_grid(r, r.randint(1, 30), r.randint(1, 12), gen.FULL, r.choice([0.5, 0.9, 1.0])))
        elif kind == 1:
            out.append(gen.random_grid(r, r.randint(1, 20), r.randint(1, 8), pool, r.choice([0.3, 0.7, 1.0])))
        elif kind == 2:
            t = list(r.choice(chunks))
            for _ in range(r.randint(1, 6)):
                if t:
                    j = r.randrange(len(t))
                    op = r.random()
                    if op < 0.4:
                        t[j] = r.choice(pool)
                    elif op < 0.7:
                        del t[j]
                    else:
                        t.insert(j, r.choice(pool + "\n\n"))
            out.append("".join(t))
        elif kind == 3:
            out.append(gen.random_grid(r, r.randint(1, 20), r.randint(1, 4), "\"ab-|\\ ", 0.7))
        elif kind == 4:
            frag = r.choice(["# Legend:", "a = {", "}", "= {x}", "a={b}\n", "# Legend:\n", "{a}", "\r\n"])
            out.append(gen.random_grid(r, 8, 2, "-|+ab ", 0.5) + "\n" + "".join(r.choice([frag, r.choice(pool), "\n"]) for _ in range(r.randint(1, 12))))
        elif kind == 5:
            out.append("".join(chr(r.choice([r.randrange(0x20, 0x7f), r.randrange(0xa0, 0x3000), r.randrange(0x3000, 0xd7ff),
                                             r.randrange(0xe000, 0xfffe), r.randrange(0x10000, 0x110000), 10, 32, 32]))
                               for _ in range(r.randint(1, 200))))
        else:
            out.append(gen.random_grid(r, r.randint(20, 60), r.randint(10, 25), "-|+.'/\\ ", r.choice([0.6, 0.95])))
    return gen.dedup(out)


def c01(tier):
    run = Run("C01", tier, level="exploration")
    n = 1200 if tier == "quick" else 60000
    run.rule = ("model: termination of the pipeline model under weak fairness, no stuck state, guards of the failure "
                "sites, on all small grids (TLC liveness check); code: every input of the hostile corpus (empty, "
                "whitespace, dense random grids over the full vocabulary, mutated bundled diagrams, unbalanced quotes, "
                "legend fragments, arbitrary Unicode scalars incl. zero-width/control/non-BMP, deep nesting and long "
                "runs) goes through each of the five entry points in crash-isolated child processes with scale from "
                "{1.2e-38, 1e-30, 0.5, 8, 37.5, 1e30, 1e38, 3e38, 3.4e38}; the trace specification accepts only outcome Return (a panic, abort, stack "
                "overflow or a run beyond L(n) = 10 s + 2 s (n/1000)^2 is a violation) and requires that no greedy pass "
                "grew its list (hook counters). non-trivial = non-empty input; distinct by (input, entry, scale)")
    r = common.rng("C01")
    path = os.path.join(common.rundir(), "MC_C01.cfg")
    with open(path, "w") as f:
        f.write("CONSTANTS\n  W = 3\n  H = 2\n  Alphabet = %s\nSPECIFICATION Spec\nPROPERTY Termination\n"
                "INVARIANTS NoStuckState SpansNonEmpty GuardsHold PassBound\nCHECK_DEADLOCK FALSE\n" % tla_set([32, 45, 124, 43, 46, 39] if tier == "thorough" else [32, 45, 124, 43, 46]))
    run.model("MC_Term", path)
    texts = hostile_inputs(r, n)
    big = []
    if tier == "thorough":
        big = [gen.random_grid(r, 200, 100, "-|+.' ", 0.9), "-" * 20000, ("|\n" * 5000), gen.diagonal(400),
               "\n".join(" " * i + "+" + "-" * (2 * (300 - i)) + "+" for i in range(0, 300))]
    else:
        big = [gen.random_grid(r, 80, 40, "-|+.' ", 0.9), "-" * 4000, gen.diagonal(150),
               "\n".join(" " * i + "+" + "-" * (2 * (60 - i)) + "+" for i in range(0, 60))]
    # structures whose grouping needs one merge pass per element (a bound on the number of passes turns into a panic
    # or a wrong result): wide combs and hatched triangles
    texts += big + ["| " * k_ + "\n" + "+-" * k_ for k_ in (70, 150, 300)] + [gen.hatch_grid(r) for _ in range(6)] + [gen.comb_grid(r) for _ in range(12)]
    # one connected group of many thousand cells (a recursion over the cells of a group must not be as deep as the group
    # is large: the conversions run on a 2 MiB stack, the default of a spawned thread)
    texts += ["-" * 25000, "|\n" * 25000, "+" + "-" * 398 + "+\n" + ("|" + " " * 398 + "|\n") * 3000 + "+" + "-" * 398 + "+",
              ("+" * 120 + "\n") * 120, "\n".join(" " * i + "\\" for i in range(390))]
    # nesting thousands deep: braces in a legend value, braces, brackets and parentheses in the drawing (a grammar that recurses
    # per opening character must not recurse as deep as the input is long)
    for opener, closer in (("{", "}"), ("(", ")"), ("[", "]"), ('"', '"')):
        for depth in (3000, 20000):
            texts.append("a\n# Legend:\nk = {" + opener * depth + "x" + closer * (depth // 2) + "}\n")
            texts.append("+--+\n|  |\n+--+ " + opener * depth)
    # every short text over the alphabet of the quote scanner and of the tag parser (small-scope exhaustive: the
    # scanners' case analysis is over a handful of characters)
    import itertools as _it
    shorts = []
    for alpha_, L_ in (('"\\a ', 6 if tier == "quick" else 8), ('"\\a{},', 5 if tier == "quick" else 6)):
        for n_ in range(1, L_ + 1):
            shorts += ["".join(c_) for c_ in _it.product(alpha_, repeat=n_)]
    shorts = gen.dedup(shorts)
    # the shared pool: what the generators of all the other properties produce
    texts += pool(r, tier, None, 700)
    cases = []
    # finite positive scales from the smallest to just below the largest f32 (at the top lengths overflow to inf)
    scales = [1e-30, 0.5, 8.0, 37.5, 1e30, 1e38, 3e38, 3.4e38, 1.2e-38]
    for i, t in enumerate(texts):
        ents = ENTRIES if tier == "thorough" or i < 80 else [ENTRIES[i % 5], ENTRIES[(i // 5 + 2) % 5]]
        for e in ents:
            c = {"input": t, "entry": e}
            if e in ("settings", "override"):
                c["settings"] = {"scale": r.choice(scales), "include_styles": r.random() < 0.5}
            if e == "override":
                c["w"], c["h"] = r.choice([0.0, 1.0, 1e9]), r.choice([0.0, 7.5, 1e9])
            cases.append(c)
    for i, t in enumerate(shorts):
        e = ENTRIES[i % 5]
        c = {"input": t, "entry": e}
        if e in ("settings", "override"):
            c["settings"] = {"scale": 8.0}
        if e == "override":
            c["w"], c["h"] = 100.0, 100.0
        cases.append(c)
    obs = observe.observe(cases, tag="C01B")
    sizes = {}
    for c, o in zip(cases, obs):
        doc = {"wf": o["doc"].get("wf", 0)}
        run.add_event({"props": ["C01"], "out": o["out"], "doc": doc, "work": o["work"] or [0, 0, 0, 0, 0],
                       "nchars": len(c["input"])},
                      {"input": c["input"], "entry": c["entry"], "settings": c.get("settings"), "outcome": o["out"],
                       "panic": o.get("panic")})
        sizes.setdefault(len(c["input"]) // 1000, []).append(o["us"])
    run.notes["max_us_by_kchars"] = {str(k): max(v) for k, v in sorted(sizes.items())}
    run.samples += [{"input": texts[60][:120], "entries": ENTRIES}, {"input_len": len(big[0]), "kind": "dense 80x40 grid"}]
    run.validate(shard=4000)
    run.assumptions = std_assumptions() + ["the time envelope L(n) is >= 100x what the pinned tree needs at the sizes used"]
    return run.finish()


PLANS.update({"C01": c01})


# ------------------------------------------------------------------------------------------
def c07(tier):
    from concurrent.futures import ThreadPoolExecutor
    run = Run("C07", tier)
    ninputs = 150 if tier == "quick" else 1500
    nprocs = 8 if tier == "quick" else 32
    thread_counts = [1, 2, 4, 8, 16, 16, 16, 16] if tier == "quick" else list(range(1, 17)) + [16] * 16
    run.rule = ("model: Service.tla with %s threads x 2 calls and the real table dependency graph, all interleavings: "
                "once-only initialisation, dependency order, no re-entrancy, determinism of results, no deadlock, every "
                "call returns (TLC, liveness); code: %d fresh processes (independent hash seeds) each converting the "
                "same corpus (x 3 settings) in a different order and then again (warm, after arbitrary other inputs); "
                "fresh processes with %s threads released from one barrier so that the first, table-initialising calls "
                "race, each thread starting at a different position; ServiceTrace infers canon[key] from the first "
                "observation and requires every later SHA-256 to equal it, and validates the lazy-init log against the "
                "table state machine. non-trivial = an observation of a key that was already observed elsewhere"
                % ("2" if tier == "quick" else "3", nprocs, thread_counts))
    r = common.rng("C07")
    path = os.path.join(common.rundir(), "MC_C07.cfg")
    with open(path, "w") as f:
        f.write("CONSTANTS\n  Threads = {%s}\n  Inputs = {1, 2}\n  MaxCalls = %d\nSPECIFICATION Spec\nPROPERTY EveryCallReturns\n"
                "INVARIANTS OnceOnly DepOrder OneOwner NoReentrancy Deterministic NoDeadlock IndInv\nCHECK_DEADLOCK FALSE\n"
                % (("t1, t2" if tier == "quick" else "t1, t2, t3"), 2 if tier == "quick" else 1))
    run.model("ServiceInd", path, timeout=3000)
    corpus = [t for t in gen.mixed_corpus(r, ninputs)] + [b for _, b in gen.bundled_files()][:6]
    corpus += pool(r, tier, None, 200)          # the shared pool: the families of every other property
    # catalogue drawings and their look-alikes (one row moved by a column, one character changed): whatever is remembered
    # about one must not decide the other, in whichever order a process meets them
    cat7 = _json.load(open(os.path.join(common.ROOT, "verifpy", "catalogue.json"), encoding="utf-8"))
    for idx in r.sample(range(2, 22), 8 if tier == "quick" else 20):
        D = list(cat7[idx])
        y = r.randrange(len(D))
        corpus.append("\n".join(D))
        corpus.append("\n".join((" " + x if i_ == y else x) for i_, x in enumerate(D)))
        xs = [x_ for x_, ch in enumerate(D[y]) if ch != " "]
        x_ = r.choice(xs)
        corpus.append("\n".join((x[:x_] + r.choice(["-", "|", "a"]) + x[x_ + 1:] if i_ == y else x) for i_, x in enumerate(D)))
        corpus.append("\n".join((x[:x_] + " " + x[x_ + 1:] if i_ == y else x).rstrip() for i_, x in enumerate(D)))      # one cell missing
    # texts whose legend does not parse (words behind the header), among texts whose legend does
    corpus += ["ab -->\n# Legend: the caption\na = {fill:red}\n", "+--+\n|{a}|\n+--+\n# Legend:\na = {fill:red}\n",
               "x # Legend: y\n", "o--o {k}\n# Legend:\nk = {stroke:blue}\n"]
    corpus += [gen.box(6, 1, "round", "{a}") + "\n# Legend:\na = {fill:red}", '"quoted" text 一二',
               gen.box(20, 1, "sharp", "{red,big,bold,hot}"), gen.box(12, 2, "uni", "{x1,y2,z3}") + "  ( a )--  ( b )--",
               "  ( a )--\n\n        ( a )--", gen.box(16, 1, "round", "{k1,k2,k3,k4}") + "\n# Legend:\nk1={a}\nk2={b}"]
    # drawings of several ten thousand cells (whatever switches to another algorithm "for large inputs" is still a function of
    # the text): the largest bundled example twice over, and a sheet of many small separate shapes with equal corners
    bund = dict(gen.bundled_files())
    longb = bund.get("long.bob", "").split("# Legend:")[0]
    sheet = "\n".join("  ".join(r.choice(["+--+", "o--*", "/\\/\\", "ab c", "-->>", "(  )"]) for _ in range(70)) for _ in range(140))
    corpus += [longb + "\n" + longb, sheet + "\n" + sheet.replace("o", "O")]
    sets = [None, {"scale": 3.0}, {"include_styles": False, "font_family": "x"}]
    reqs = []
    for i, t in enumerate(corpus):
        s = sets[i % 3]
        rq = {"id": i, "input": t, "entry": "settings" if s else ["to_svg", "compressed"][i % 2]}
        if s:
            rq["settings"] = s
        reqs.append(rq)
    # the same inputs under settings that differ in one cosmetic field only (whatever is remembered from the call before
    # must not depend on a subset of the settings), and legends with a class declared more than once among others
    cosmetic = [{"font_size": 20}, {"font_size": 9}, {"stroke_width": 4.0}, {"fill_color": "red"}, {"background": "black"},
                {"stroke_color": "blue"}, {"font_family": "serif"}, {"include_backdrop": False}, {"include_defs": False}]
    legends = ["ab --> *\n# Legend:\na = {x:1}\nb = {y:2}\nc = {z:3}\na = {w:4}\nd = {v:5}\n",
               gen.box(10, 1, "sharp", "{a,b}") + "\n# Legend:\nb = {fill:red}\na = {fill:blue}\nb = {stroke:green}\nc1 = {x:y}\nc2 = {x:z}\n"]
    for t in corpus[:12] + legends:
        for s_ in [None] + cosmetic:
            rq = {"id": len(reqs), "input": t, "entry": "settings" if s_ else "to_svg"}
            if s_:
                rq["settings"] = s_
            reqs.append(rq)
    # inputs of one and the same byte length (a buffer freed after one conversion is handed to the next), and different
    # drawings that occupy exactly the same cells of the page (a circle, a box, an arc, and blocks of words in their place):
    # converted one right after the other in every process
    block = []
    shapes_ = [" ,-.\n(   )\n `-'", "+---+\n|   |\n+---+", " .-.\n(\n `-", "ab cd\ne f g\nhi jk", "-----\n  |  \n-----", "\\   /\n  X  \n/   \\",
               "o---o\n|   |\n*---*", "abcde\nfghij\nklmnp"]
    for t in shapes_:
        t = "\n".join(x.ljust(5) for x in t.split("\n"))
        block.append("\n\n\n" + "\n".join("       " + x for x in t.split("\n")))
    assert len(set(len(b.encode("utf-8")) for b in block)) == 1
    for t in block:
        reqs.append({"id": len(reqs), "input": t, "entry": "to_svg"})
    block_ids = [rq["id"] for rq in reqs[-len(block):]]
    keyof = {rq["id"]: "%d|%s|%d" % (rq["id"], rq["entry"], rq["id"] % 3) for rq in reqs}
    # the thread corpus starts with inputs that force every lazy table (circles, quarter / half / three-quarter
    # arcs, Unicode glyphs), so that the first calls of racing threads initialise them concurrently
    cat = _json.load(open(os.path.join(common.ROOT, "verifpy", "catalogue.json"), encoding="utf-8"))
    hungry = []
    for idx in (5, 8, 11, 14, 17, 20):
        D = cat[idx]
        h, w = len(D), max(len(x) for x in D)
        hungry.append("\n".join(D))
        for (qx, qy) in ((1, 1), (0, 1), (1, 0), (0, 0)):          # blank one quadrant / one half
            hungry.append("\n".join("".join(" " if ((x >= w // 2) == bool(qx) and (y >= h // 2) == bool(qy)) else ch
                                             for x, ch in enumerate(row.ljust(w))).rstrip() for y, row in enumerate(D)))
        hungry.append("\n".join(D[:h // 2]))
        hungry.append("\n".join(row[:w // 2] for row in D))
    tabs = _json.load(open(os.path.join(common.ROOT, "verifpy", "catalogue_tables.json"), encoding="utf-8"))
    for key in ("three_quarters", "half", "quarter"):
        ents = tabs[key]
        for e in [ents[i] for i in (3, 17, 30, 44, 58, 75) if i < len(ents)]:
            cells = {(c[0], c[1]): chr(c[2]) for c in e["span"]}
            hh = max(y for (_, y) in cells) + 1
            ww = max(x for (x, _) in cells) + 1
            hungry.append("\n".join("".join(cells.get((x, y), " ") for x in range(ww)).rstrip() for y in range(hh)))
    hungry += ["┌─┐\n│○│\n└─┘  ▲ ●--", "*--o--O  .-.\n        (   )\n         `-'"]
    treqs = []
    for i, t in enumerate(hungry):
        treqs.append({"id": len(reqs) + i, "input": t, "entry": "to_svg"})
        keyof[len(reqs) + i] = "%d|to_svg|0" % (len(reqs) + i)
    allreqs = {rq["id"]: rq for rq in reqs + treqs}
    events = []
    meta = []

    def sha(resp):
        if not resp.get("ok"):
            return "PANIC:" + str(resp.get("panic"))[:80]
        return _hashlib.sha256(resp["svg"].encode("utf-8", "surrogatepass")).hexdigest()

    def one_proc(p):
        rr = common.rng("C07/proc/%d" % p)
        order = list(reqs) + list(treqs)
        rr.shuffle(order)
        second = list(reqs)
        rr.shuffle(second)
        second = second[:len(second) // 2]
        blk = [rq for rq in reqs if rq["id"] in block_ids]
        tail = []
        for _ in range(3):
            rr.shuffle(blk)
            tail += list(blk)
        return p, common.run_batch_process(order + second + tail, tag="C07p%d" % p)
    with ThreadPoolExecutor(max_workers=min(common.NCPU, nprocs)) as ex:
        for p, resps in ex.map(one_proc, range(1, nprocs + 1)):
            for k, resp in enumerate(resps):
                events.append({"ev": "ret", "proc": p, "thread": 0, "key": keyof[resp["id"]], "sha": sha(resp)})
                meta.append({"input": allreqs[resp["id"]]["input"], "entry": allreqs[resp["id"]]["entry"],
                             "settings": allreqs[resp["id"]].get("settings"), "proc": p, "position": k})
    lazy_total = 0
    tcorpus = treqs + reqs[:max(20, len(reqs) // 4)]
    for j, nth in enumerate(thread_counts):
        p = 100 + j
        calls, lazy = common.run_threads(nth, tcorpus, tag="C07t%d_%d" % (nth, j), same_start=(j % 2 == 1))
        # lazy events are ordered by their process-wide sequence number; calls per thread by seq
        for lz in sorted(lazy, key=lambda x: x["seq"]):
            events.append({"ev": "lazy", "proc": p, "thread": lz["thread"], "table": lz["table"], "phase": lz["phase"]})
            meta.append({"proc": p, "lazy": lz})
            lazy_total += 1
        for c in calls:
            resp = c["resp"]
            events.append({"ev": "ret", "proc": p, "thread": c["thread"], "key": keyof[resp["id"]], "sha": sha(resp)})
            meta.append({"input": allreqs[resp["id"]]["input"], "entry": allreqs[resp["id"]]["entry"],
                         "settings": allreqs[resp["id"]].get("settings"), "proc": p, "thread": c["thread"], "position": c["seq"]})
    # many more fresh processes racing on first use with only the table-hungry inputs (cheap)
    for j in range(12 if tier == "quick" else 80):
        p = 1000 + j
        rr = common.rng("C07/race/%d" % j)
        order = list(treqs)
        rr.shuffle(order)
        calls, lazy = common.run_threads(16, order, tag="C07r%d" % j, same_start=True)
        for lz in sorted(lazy, key=lambda x: x["seq"]):
            events.append({"ev": "lazy", "proc": p, "thread": lz["thread"], "table": lz["table"], "phase": lz["phase"]})
            meta.append({"proc": p, "lazy": lz})
            lazy_total += 1
        for c in calls:
            resp = c["resp"]
            events.append({"ev": "ret", "proc": p, "thread": c["thread"], "key": keyof[resp["id"]], "sha": sha(resp)})
            meta.append({"input": allreqs[resp["id"]]["input"], "entry": "to_svg", "settings": None, "proc": p,
                         "thread": c["thread"], "position": c["seq"]})
    # a long history on one thread: a catalogue circle once, then the same drawings with one cell missing several thousand
    # times over (whatever a matcher keeps between searches - counters, scratch grids - must never decide a later search)
    hist = []
    for idx in (3, 4, 6):
        D = list(cat7[idx])
        full = "\n".join(D)
        y = len(D) // 2
        xs = [x_ for x_, ch in enumerate(D[y]) if ch != " "]
        opened = "\n".join((x[:xs[-1]] + " " + x[xs[-1] + 1:] if i_ == y else x).rstrip() for i_, x in enumerate(D))
        top = "\n".join((x[:-1] if i_ == 0 else x).rstrip() for i_, x in enumerate(D))
        # (one near miss at a time, many times in a row: a different near miss in between would refresh whatever is kept)
        nrep = 2500 if tier == "quick" else 12000
        hist += [full] + [opened] * nrep + [full] + [top] * nrep
    hreqs = [{"id": len(allreqs) + i, "input": t, "entry": "to_svg"} for i, t in enumerate(hist)]
    for rq in hreqs:
        allreqs[rq["id"]] = rq
        keyof[rq["id"]] = "H|" + _hashlib.sha256(rq["input"].encode("utf-8")).hexdigest()[:16]
    for pno in (2000, 2001):
        hres = common.run_batch_process(hreqs if pno == 2000 else list(reversed(hreqs)), tag="C07h%d" % pno)
        for k_, resp in enumerate(hres):
            events.append({"ev": "ret", "proc": pno, "thread": 0, "key": keyof[resp["id"]], "sha": sha(resp)})
            meta.append({"input": allreqs[resp["id"]]["input"], "entry": "to_svg", "settings": None, "proc": pno, "thread": 0, "position": k_})
    run.notes["lazy_events"] = lazy_total
    run.notes["processes"] = nprocs + len(thread_counts)
    drift_before = run.drift

    def classify(preds):
        out = []
        for pr in sorted(preds):
            if pr == "C07":
                out.append((pr, None))
            else:
                run.drift += 1      # mechanism-level: lazy-init protocol differs from Service.tla
                if len(run.drift_samples) < 5:
                    run.drift_samples.append({"predicate": pr})
        return out
    run.classify = classify
    for ev, m in zip(events, meta):
        run.add_event(ev, m)
    run.samples.append({"key": events[0]["key"], "sha": events[0]["sha"], "proc": 1})
    run.validate(module="ServiceTrace", cfg="ServiceTrace.cfg", shard=10 ** 9)
    # stateless also as an object: a buffer that is kept, rendered, written and rendered again gives what a fresh one gives
    run.classify = Run.classify.__get__(run)
    buffer_part(run, r, 120 if tier == "quick" else 3000, ["fresh"], "C07H", model=True)
    run.assumptions = std_assumptions() + ["SHA-256 equality stands for byte equality",
                                           "thread races are observed, not enumerated: 16 threads from one barrier on 16 cores"]
    return run.finish()


PLANS.update({"C07": c07})


# ------------------------------------------------------------------------------------------
def lib_converter():
    """memoising access to the library's conversion for given settings, through bobdrive"""
    cache = {}

    def convert_many(pairs):
        todo = [(t, s) for (t, s) in pairs if (t, _json.dumps(s, sort_keys=True)) not in cache]
        if todo:
            reqs = [{"id": i, "input": t, "entry": "settings", "settings": s} for i, (t, s) in enumerate(todo)]
            resp = common.run_requests(reqs, tag="lib")
            for i, (t, s) in enumerate(todo):
                cache[(t, _json.dumps(s, sort_keys=True))] = resp[i].get("svg", "<<library did not return>>")

    def convert(t, s):
        key = (t, _json.dumps(s, sort_keys=True))
        if key not in cache:
            convert_many([(t, s)])
        return cache[key]
    return convert, convert_many


def c19(tier):
    from . import shells
    run = Run("C19", tier)
    run.rule = ("model: Cli.tla - the protocol machine ParseArgs/ReadInput/MapSettings/Convert/WriteOutput/Exit with "
                "fault actions; TLC enumerates all 2^9 option subsets x input modes x fault sets, checks that the "
                "machine's outcome equals the reference functions, exit = 0 iff no fault, termination; every scenario "
                "is replayed %s against the real svgbob_cli binary with seeded random values and inputs; the trace "
                "specification evaluates CliOK (exit status, stdout = document + newline / file verbatim, diagnostic "
                "and no partial output on failure) with the library's own conversion for the mapped settings as "
                "reference; batch mode: CliBuild.tla (directory listed in any order; entries skipped, converted or failing "
                "because the output path is taken) model-checked and every scenario replayed on disk, plus random "
                "directories (output dir, relative paths, missing dir). every scenario "
                "is non-trivial" % ("once" if tier == "quick" else "8 times"))
    r = common.rng("C19")
    cli, _srv = common.build_bins()
    res = run.model("Cli", "Cli.cfg")
    scens = common.tla_json_strings(res["lines"], "REPLAY")
    reps = 1 if tier == "quick" else 8
    # (the binary is built without the hooks, the reference conversion with them: a large and varied pool of inputs
    # also shows that the feature does not change what the library computes)
    pool = gen.mixed_corpus(r, 60 if tier == "quick" else 400)
    pool += [gen.comb_grid(r) for _ in range(40)] + [gen.walk_grid(r) for _ in range(40)] + [gen.nested_grid(r, "-|+ab") for _ in range(20)]
    texts = [t for t in pool if t.strip() and not t.startswith("-") and "\\n" not in t and "\x00" not in t
             and not t.lstrip().startswith("-")]
    texts += ["+--+\n|ab|\n+--+", "o-->*", gen.box(5, 1, "round", "{a}") + "\n# Legend:\na = {fill:red}"]
    # a backslash followed by a letter other than n is two ordinary characters in every input mode
    texts += ["a\\tb", "\\to\n \\", "x\\ty \\r \\0", "\\ \\t\n \\"] * 3
    # a leading byte order mark (or any other invisible character) is part of the text in every mode
    texts += ["\ufeff+--+\n|  |\n+--+", "\ufeffab -->", "\u200b| x", " \n\n+-+"] * 3
    # large inputs (beyond any fixed-size read buffer: 8 KiB, 16 KiB, 64 KiB) with multi-byte characters at every
    # alignment: a run of 2-, 3- and 4-byte characters shifted by 0..3 ASCII bytes in front of it, repeated in every line
    # (the bulk sits in the legend, which costs bytes but no cells; a few rows of it in the drawing too)
    for j in range(8):
        line = "x" * (j % 4) + ("é→😀ж一" * 12)[:40 + j]
        decl = ("é→😀ж一" * 30)[:100 + j]
        nent = [25, 50, 100, 210][j % 4]
        texts.append("+--+\n|ab|\n+--+\n" + "\n".join(line for _ in range(8)) + "\n# Legend:\n"
                     + "".join("k%d = {content: '%s%s'}\n" % (i_, "y" * ((i_ + j) % 4), decl) for i_ in range(nent)))
    convert, convert_many = lib_converter()
    work = os.path.join(common.rundir(), "cli")
    os.makedirs(work, exist_ok=True)
    jobs = []
    k = 0
    for rep in range(reps):
        for sc in scens:
            jobs.append((k, sc, r.choice(texts), common.rng("C19/%d" % k)))
            k += 1
    from concurrent.futures import ThreadPoolExecutor

    def one(job):
        idx, sc, text, rr = job
        ob, info = shells.run_cli(cli, rr, sc, text, convert, work, idx)
        return sc, text, ob, info
    # pre-compute nothing: the library conversion is memoised on demand (thread-safe enough: idempotent)
    with ThreadPoolExecutor(max_workers=common.NCPU) as ex:
        for sc, text, ob, info in ex.map(one, jobs):
            if ob["exit"] != sc["exit"]:
                # the model names the tool's present exit codes (1 / 101 / 2); another non-zero code is drift, not a verdict
                run.drift += 1
                if len(run.drift_samples) < 5:
                    run.drift_samples.append({"scenario": sc, "exit": ob["exit"]})
            run.add_event({"props": ["C19"], "sc": {"opts": sc["opts"], "inmode": sc["inmode"], "fault": sc["fault"]}, "ob": ob},
                          {"input": text, "scenario": sc, "cli": info})
    run.replayed = len(jobs)
    # batch mode on the model: CliBuild.tla (directory listing in any order, skipped / converted / failed entries);
    # every scenario is laid out on disk and replayed: same files written, same status (difference = drift) and
    # BuildOK on the observation
    cfgb = os.path.join(common.rundir(), "MC_C19b.cfg")
    with open(cfgb, "w") as f:
        f.write('CONSTANTS\n  Stems = {"a", "net.v1", "net.v2"%s}\nSPECIFICATION Spec\nPROPERTY Terminates\n'
                'INVARIANTS OneDocumentPerFile NoCollision ExitIffSuccess DiagnosticOnFailure Emit\nCHECK_DEADLOCK FALSE\n'
                % ("" if tier == "quick" else ', "x y"'))
    resb = run.model("CliBuild", cfgb, timeout=3000)
    bscens = common.tla_json_strings(resb["lines"], "REPLAY")

    def one_b(job):
        i, sc = job
        return shells.run_build_scenario(cli, common.rng("C19/s%d" % i), sc, texts, convert, work, i)
    with ThreadPoolExecutor(max_workers=common.NCPU) as ex:
        for (b, ob, info, same), sc in zip(ex.map(one_b, list(enumerate(bscens))), bscens):
            run.replayed += 1
            if not same:
                run.drift += 1
                if len(run.drift_samples) < 5:
                    run.drift_samples.append({"scenario": sc, "real": info})
            run.add_event({"props": ["C19build"], "build": b, "ob": ob}, {"build": b, "scenario": sc, "cli": info})
    nb = 40 if tier == "quick" else 600
    for i in range(nb):
        b, ob, info = shells.run_build(cli, common.rng("C19/b%d" % i), [r.choice(texts) for _ in range(4)], convert, work, i)
        run.add_event({"props": ["C19build"], "build": b, "ob": ob}, {"build": b, "cli": info})
    run.samples += [{"scenario": scens[5]}, {"scenario": scens[-1]}]
    run.validate(shard=2000)
    run.assumptions = std_assumptions() + ["SHA-256 equality stands for byte equality",
                                           "the library's conversion for the mapped settings is computed by bobdrive from the same tree"]
    return run.finish()


PLANS.update({"C19": c19})


# ------------------------------------------------------------------------------------------
def c20(tier):
    import re as _re
    from . import shells
    from concurrent.futures import ThreadPoolExecutor
    run = Run("C20", tier)
    nclients = 16
    nreq = 60 if tier == "quick" else 1500
    run.rule = ("model: Server.tla (connection stages of the framework as separate actions: parse, route, extract under "
                "the body limit, decode, convert on one of 2 runtime threads, respond) with 3 clients x %d requests of 7 "
                "classes, all interleavings: the response is a function of the request alone, every response is allowed "
                "for its class, the server stays alive, every request is answered (TLC, liveness under weak fairness "
                "per client); code: one svgbob_server process on 127.0.0.1, first a sequential "
                "client, then %d concurrent clients each issuing %d seeded requests (GET, POST of diagrams up to 20 kB "
                "and hostile markup, empty body, invalid UTF-8, oversize 2 MiB+, other methods/paths, malformed raw "
                "requests) and a final probe GET; each exchange is an event with the SHA-256 of the response body and "
                "of the library's own default conversion of the posted body; the trace specification evaluates "
                "ExchangeOK; the process must still be running at the end. every exchange is non-trivial"
                % (2 if tier == "quick" else 3, nclients, nreq))
    path = os.path.join(common.rundir(), "MC_C20.cfg")
    with open(path, "w") as f:
        f.write("CONSTANTS\n  Clients = {c1, c2, c3}\n  MaxReq = %d\nSPECIFICATION Spec\nPROPERTY AllAnswered\n"
                "INVARIANTS TypeOK ResponseIsFunctionOfRequest ResponsesAllowed ServerAlive BusyCounts NoThreadLost\nCHECK_DEADLOCK FALSE\n" % (1 if tier == "quick" else 2))
    run.model("Server", path, timeout=3000)
    _cli, srvbin = common.build_bins()
    toml = open(os.path.join(common.REPO, "crates", "svgbob_server", "Cargo.toml")).read()
    name = _re.search(r'^name\s*=\s*"([^"]+)"', toml, _re.M).group(1)
    ver = _re.search(r'^version\s*=\s*"([^"]+)"', toml, _re.M).group(1)
    hello_sha = shells.sha(("%s %s" % (name, ver)).encode())
    r = common.rng("C20")
    LIMIT = 2 * 1024 * 1024          # the framework's default body limit: bodies up to it are converted, larger ones refused
    small = "+--+\n|ab|\n+--+\n"
    corpus = [t for t in gen.mixed_corpus(r, 120)] + ["", " ", "<script>alert(1)</script>", "</svg>", "a\n# Legend:\na={x}",
                                                     "a \ufffd b", "\ufffd", "+-\ufffd-+ \ufeff",      # valid UTF-8 that merely looks like a decoding error
                                                     small + " " * (LIMIT - len(small)), small + " " * (LIMIT - len(small) - 1),
                                                     small + " " * (2000001 - len(small)), small + " " * (2 * 1000 * 1024 - len(small)),
                                                     gen.random_grid(r, 150, 120, "-|+.' ab", 0.7)[:20000]]
    # bodies from the shared pool (control characters, hostile legends, every script: whatever the body is, the answer is the
    # library's conversion of exactly these bytes)
    corpus += [t for t in gen.universe(r, 60) if len(t) < 20000]
    corpus += ["a\x1bb --> \x01", "+--+\x0c\n|\x7f |\n+--+", "x\u0085y", "\x00"]
    convert, convert_many = lib_converter()
    convert_many([(t, {}) for t in corpus])
    lib_sha = {t: shells.sha(convert(t, {}).encode("utf-8")) for t in corpus}
    srv = shells.Server(srvbin)
    srv.start()
    events = []
    try:
        def exchange(rr, cid, seq):
            kind = rr.choice(["get", "post_ok", "post_ok", "post_ok", "post_badutf8", "other_method", "other_path", "malformed",
                              "post_oversize" if rr.random() < 0.15 else "post_ok"])
            want = ""
            if kind == "get":
                st, body = shells.http_request(srv.port, "GET", "/")
                want = hello_sha
            elif kind == "post_ok":
                t = rr.choice(corpus)
                st, body = shells.http_request(srv.port, "POST", "/", t.encode("utf-8"))
                want = lib_sha[t]
            elif kind == "post_badutf8":
                st, body = shells.http_request(srv.port, "POST", "/", rr.choice([b"\xff\xfe+--+", b"ab\xc3", b"\x80", b"+-+\xed\xa0\x80"]))
            elif kind == "post_oversize":
                st, body = shells.http_request(srv.port, "POST", "/", b"-" * (2 * 1024 * 1024 + rr.randint(1, 4096)), timeout=60)
            elif kind == "other_method":
                st, body = shells.http_request(srv.port, rr.choice(["PUT", "DELETE", "PATCH"]), "/", b"x")
            elif kind == "other_path":
                st, body = shells.http_request(srv.port, rr.choice(["GET", "POST"]), rr.choice(["/x", "/svg", "/../etc", "/%00"]), None)
            else:
                st, body = shells.raw_request(srv.port, rr.choice([b"garbage\r\n\r\n", b"GET\r\n\r\n", b"\x00\x01\x02\r\n\r\n",
                                                                  b"POST / HTTP/1.1\r\nContent-Length: abc\r\n\r\n", b"GET / HTTP/9.9\r\n\r\n"]))
            return {"client": cid, "seq": seq, "class": kind, "status": st, "body_sha": shells.sha(body), "want_sha": want}

        def client(cid, n):
            rr = common.rng("C20/client/%d" % cid)
            evs = [exchange(rr, cid, k) for k in range(n)]
            st, body = shells.http_request(srv.port, "GET", "/")       # final probe: the server still answers
            evs.append({"client": cid, "seq": n, "class": "get", "status": st, "body_sha": shells.sha(body), "want_sha": hello_sha})
            return evs
        events += client(0, nreq)            # sequential phase
        # a four-byte character at every alignment in bodies of several sizes (a decoder fed in pieces must put it together),
        # sent in one piece, in two writes cut inside the character, and with chunked transfer encoding
        uni_bodies = []
        for size in (1, 4093, 8189, 12281, 16381, 65533):
            for pad in range(4):
                uni_bodies.append("+--+\n|ab|\n+--+\n" + " " * (size + pad) + "\U0001F600 x\n" + "é" * 3 + "\U00020000")
        convert_many([(t, {}) for t in uni_bodies])
        for k_, t in enumerate(uni_bodies):
            want = shells.sha(convert(t, {}).encode("utf-8"))
            raw = t.encode("utf-8")
            cut = raw.index("\U0001F600".encode("utf-8")) + 3
            for mode in ("plain", "split", "chunked"):
                if mode == "plain":
                    st, body = shells.http_request(srv.port, "POST", "/", raw, timeout=120)
                elif mode == "chunked":
                    st, body = shells.http_request(srv.port, "POST", "/", iter([raw[:cut], raw[cut:]]), timeout=120)
                else:
                    st, body = shells.split_post(srv.port, raw, cut)
                events.append({"client": 0, "seq": 6000 + 3 * k_, "class": "post_ok", "status": st, "body_sha": shells.sha(body), "want_sha": want})
        # every special body once, deliberately: U+FFFD in valid UTF-8, and bodies just below and exactly at the limit
        for k_, t in enumerate([x for x in corpus if "\ufffd" in x or len(x) > 1900000]):
            st, body = shells.http_request(srv.port, "POST", "/", t.encode("utf-8"), timeout=120)
            events.append({"client": 0, "seq": 5000 + k_, "class": "post_ok", "status": st, "body_sha": shells.sha(body), "want_sha": lib_sha[t]})
        with ThreadPoolExecutor(max_workers=nclients) as ex:
            for evs in ex.map(lambda c: client(c, nreq), range(1, nclients + 1)):
                events += evs
        # contention phase: all clients post from a small set of slow (large) and fast diagrams at once, so that
        # conversions of different bodies overlap and the same body is in flight on several connections
        slow = [gen.random_grid(common.rng("C20/slow/%d" % i), 140, 60, "-|+.' ab", 0.75)[:19000] for i in range(3)]
        fast = ["+--+\n|ab|\n+--+", "o-->", "a"]
        convert_many([(t, {}) for t in slow + fast])
        pool = [(t, shells.sha(convert(t, {}).encode("utf-8"))) for t in slow + fast]

        def contender(cid):
            rr = common.rng("C20/contend/%d" % cid)
            out = []
            for k in range(10 if tier == "quick" else 60):
                t, want = rr.choice(pool)
                st, body = shells.http_request(srv.port, "POST", "/", t.encode("utf-8"), timeout=120)
                out.append({"client": cid, "seq": 1000 + k, "class": "post_ok", "status": st, "body_sha": shells.sha(body), "want_sha": want})
            return out
        with ThreadPoolExecutor(max_workers=nclients) as ex:
            for evs in ex.map(contender, range(1, nclients + 1)):
                events += evs
        # look-alike bodies one right after the other, sequentially and from four clients at once: drawings of the same size
        # with the same first and last cells (a catalogue circle and the rounded box of its size, a drawing and the same with
        # one row moved): what the server kept from one request must not answer the next
        cat20 = _json.load(open(os.path.join(common.ROOT, "verifpy", "catalogue.json"), encoding="utf-8"))
        look = []
        for idx in (2, 3, 5, 8):
            D = list(cat20[idx])
            wd = max(len(x) for x in D)
            box_ = [D[0]] + ["|" + " " * (wd - 2) + "|" for _ in D[1:-1]] + [D[-1]]
            look += ["\n".join(D), "\n".join(box_), "\n".join(D), "\n".join((" " + x if i_ == 1 else x) for i_, x in enumerate(D))]
        convert_many([(t, {}) for t in look])
        lpool = [(t, shells.sha(convert(t, {}).encode("utf-8"))) for t in look]

        def lookalikes(cid):
            out = []
            for rep_ in range(2):
                for k, (t, want) in enumerate(lpool):
                    st, body = shells.http_request(srv.port, "POST", "/", t.encode("utf-8"), timeout=60)
                    out.append({"client": cid, "seq": 2000 + rep_ * 100 + k, "class": "post_ok", "status": st, "body_sha": shells.sha(body), "want_sha": want})
            return out
        events += lookalikes(0)
        with ThreadPoolExecutor(max_workers=4) as ex:
            for evs in ex.map(lookalikes, range(1, 5)):
                events += evs
        # several requests over one connection (keep-alive): answers must not depend on what the connection carried before;
        # a connection the server has closed is re-opened and the request sent again (closing is the server's right)
        import http.client as _hc

        def keepalive(cid):
            rr = common.rng("C20/keep/%d" % cid)
            out = []
            conn = _hc.HTTPConnection("127.0.0.1", srv.port, timeout=120)
            for k in range(12 if tier == "quick" else 80):
                kind = rr.choice(["get", "post_ok", "post_ok", "post_badutf8", "other_path"])
                want = ""
                if kind == "get":
                    meth, pth, body, want = "GET", "/", None, hello_sha
                elif kind == "post_ok":
                    t, want = rr.choice(pool + lpool)
                    meth, pth, body = "POST", "/", t.encode("utf-8")
                elif kind == "post_badutf8":
                    meth, pth, body = "POST", "/", b"+--+\xff"
                else:
                    meth, pth, body = "GET", "/nowhere", None
                st, data = 0, b""
                for attempt in range(2):
                    try:
                        conn.request(meth, pth, body=body, headers={"Content-Type": "text/plain"} if body is not None else {})
                        rs = conn.getresponse()
                        data = rs.read()
                        st = rs.status
                        break
                    except (OSError, _hc.HTTPException):
                        conn.close()
                        conn = _hc.HTTPConnection("127.0.0.1", srv.port, timeout=120)
                out.append({"client": cid, "seq": 4000 + k, "class": kind, "status": st, "body_sha": shells.sha(data), "want_sha": want})
            conn.close()
            return out
        with ThreadPoolExecutor(max_workers=4) as ex:
            for evs in ex.map(keepalive, range(1, 5)):
                events += evs
        # uploads that stall: many connections send the head of a POST and a few bytes of the body and then nothing; while
        # they are held open, other clients' requests must be answered as always
        import socket as _socket
        stalled = []
        for k in range(40):
            try:
                s_ = _socket.create_connection(("127.0.0.1", srv.port), timeout=10)
                s_.sendall(b"POST / HTTP/1.1\r\nHost: 127.0.0.1\r\nContent-Type: text/plain\r\nContent-Length: 5000\r\n\r\n+--+\n|ab|")
                stalled.append(s_)
            except OSError:
                pass
        time.sleep(0.5)

        def during(cid):
            out = []
            for k in range(3):
                st, body = shells.http_request(srv.port, "GET", "/", timeout=90)
                out.append({"client": cid, "seq": 3000 + 2 * k, "class": "get", "status": st, "body_sha": shells.sha(body), "want_sha": hello_sha})
                t, want = pool[3 + k % 3]
                st, body = shells.http_request(srv.port, "POST", "/", t.encode("utf-8"), timeout=90)
                out.append({"client": cid, "seq": 3001 + 2 * k, "class": "post_ok", "status": st, "body_sha": shells.sha(body), "want_sha": want})
            return out
        with ThreadPoolExecutor(max_workers=4) as ex:
            for evs in ex.map(during, range(1, 5)):
                events += evs
        for s_ in stalled:
            try:
                s_.close()
            except OSError:
                pass
        run.notes["stalled_uploads_held"] = len(stalled)
        # clients that leave: a complete POST of a slow drawing and the connection closed before the answer can be ready (a dozen
        # times), and connections that are reset the moment they are made, nothing sent; after each batch the server answers
        # everybody else as always
        import struct as _struct
        # (a drawing that keeps a conversion busy for about a second: a dense grid of junctions, within the 20 kB of the quantifier)
        slowb = (("+" * 140 + "\n") * 140).encode("utf-8")
        gone = []
        for k in range(12):
            try:
                s_ = _socket.create_connection(("127.0.0.1", srv.port), timeout=10)
                s_.sendall(b"POST / HTTP/1.1\r\nHost: 127.0.0.1\r\nContent-Type: text/plain\r\nContent-Length: %d\r\n\r\n" % len(slowb) + slowb)
                gone.append(s_)
            except OSError:
                pass
        time.sleep(0.4)              # the conversions are under way (or queued) when the clients go
        for k, s_ in enumerate(gone):
            try:
                if k % 3 == 1:
                    s_.shutdown(_socket.SHUT_WR)
                s_.close()
            except OSError:
                pass
        for k in range(20):
            try:
                s_ = _socket.create_connection(("127.0.0.1", srv.port), timeout=10)
                s_.setsockopt(_socket.SOL_SOCKET, _socket.SO_LINGER, _struct.pack("ii", 1, 0))
                s_.close()          # linger 0: the connection is reset, not closed
            except OSError:
                pass
        time.sleep(6.0)             # (whatever the abandoned conversions do to the server, let it happen)

        def afterwards(cid):
            out = []
            for k in range(4):
                t, want = pool[k % len(pool)]
                st, body = shells.http_request(srv.port, "POST", "/", t.encode("utf-8"), timeout=120)
                out.append({"client": cid, "seq": 5000 + 2 * k, "class": "post_ok", "status": st, "body_sha": shells.sha(body), "want_sha": want})
                st, body = shells.http_request(srv.port, "GET", "/", timeout=90)
                out.append({"client": cid, "seq": 5001 + 2 * k, "class": "get", "status": st, "body_sha": shells.sha(body), "want_sha": hello_sha})
            return out
        with ThreadPoolExecutor(max_workers=4) as ex:
            for evs in ex.map(afterwards, range(1, 5)):
                events += evs
        alive = srv.alive()
    finally:
        srv.stop()
    for ob in events:
        run.add_event({"props": ["C20"], "ob": ob}, {"exchange": ob})
    # the process itself must have survived
    run.add_event({"props": ["C20"], "ob": {"client": -1, "seq": 0, "class": "get", "status": 200 if alive else 0,
                                            "body_sha": hello_sha, "want_sha": hello_sha}}, {"exchange": "process alive at the end"})
    run.samples += [events[3], events[-1]]
    run.notes["status_histogram"] = {k: sum(1 for e in events if "%s:%d" % (e["class"], e["status"]) == k)
                                     for k in sorted(set("%s:%d" % (e["class"], e["status"]) for e in events))}
    run.validate(shard=5000)
    run.assumptions = std_assumptions() + ["SHA-256 equality stands for byte equality", "loopback networking on 127.0.0.1"]
    return run.finish()


PLANS.update({"C20": c20})


# ------------------------------------------------------------------------------------------
# histories of one buffer object (spec/Buffer.tla, spec/BufferTrace.tla)
BUF_SEP = "\n\x1e\n"
BUF_INS = "-|+/\\*o.'_=<>^vx:~ab"


def buffer_histories(run, r, n, clauses, tag):
    """n scripts on one CellBuffer each: build it from a text, render, write cells (inside and beyond the present
    extent, removing also the right-most / bottom-most ones), render again at the same and at other scales ...  Each
    render is paired with the ordinary conversion of the text that spells the object's state at that moment.
    BufferTrace keeps the state itself from the recorded writes and evaluates the clauses on every render."""
    from .project import project
    base = pool(r, "thorough", lambda t: gen.tame(t) and not gen.has_legend(t) and '"' not in t and t.strip()
                and all(not common_wide(c) for c in t) and len(t) < 600)
    r.shuffle(base)
    base = base[:n]
    reqs, plans = [], []
    for i, t in enumerate(base):
        grid = [list(row) for row in t.split("\n")]

        def text_of():
            return "\n".join("".join(row).rstrip() for row in grid)
        ops, plan = [], []          # plan: ("load", rows) | ("insert", x, y, ch) | ("remove", x, y) | ("render", scale, text)
        plan.append(("load", gen.rows_of(t)))
        for rnd in range(r.randint(2, 4)):
            if rnd > 0:
                for _ in range(r.randint(1, 4)):
                    cells = [(x, y) for y, row in enumerate(grid) for x, ch in enumerate(row) if ch != " "]
                    if cells and r.random() < 0.4:
                        # remove: any cell, the right-most or the bottom-most one
                        x, y = r.choice([r.choice(cells), max(cells), max(cells, key=lambda c: (c[1], c[0]))])
                        grid[y][x] = " "
                        ops.append({"op": "remove", "x": x, "y": y})
                        plan.append(("remove", x, y))
                    else:
                        h = len(grid)
                        w = max([len(row) for row in grid] + [1])
                        x, y = r.choice([(r.randrange(w), r.randrange(h)), (w + r.randint(0, 6), r.randrange(h)),
                                         (r.randrange(w), h + r.randint(0, 3)), (w + r.randint(0, 3), h + r.randint(0, 2))])
                        ch = r.choice(BUF_INS)
                        while len(grid) <= y:
                            grid.append([])
                        while len(grid[y]) <= x:
                            grid[y].append(" ")
                        grid[y][x] = ch
                        ops.append({"op": "insert", "x": x, "y": y, "ch": ord(ch)})
                        plan.append(("insert", x, y, ord(ch)))
            for s in r.sample([8.0] + SCALES, r.randint(1, 2)):
                ops.append({"op": "render", "settings": {"scale": s}})
                plan.append(("render", s, text_of()))
        reqs.append({"id": len(reqs), "input": t, "entry": "script", "ops": ops})
        plans.append(plan)
    fresh_reqs = []
    for plan in plans:
        for st in plan:
            if st[0] == "render":
                fresh_reqs.append({"id": len(fresh_reqs), "input": st[2], "entry": "settings", "settings": {"scale": st[1]}})
    resp = common.run_requests(reqs, tag=tag)
    fresp = common.run_requests(fresh_reqs, tag=tag + "f")
    fi = 0
    for k, plan in enumerate(plans):
        rs = resp[k]
        parts = rs.get("svg", "").split(BUF_SEP) if rs.get("ok") else []
        pi = 0
        first = True
        for st in plan:
            meta = {"input": base[k], "script": reqs[k]["ops"], "source": "buffer history"}
            if st[0] == "load":
                ev = {"ev": "load", "rows": st[1]}
            elif st[0] == "insert":
                ev = {"ev": "insert", "x": st[1], "y": st[2], "ch": st[3], "rel": 0}
            elif st[0] == "remove":
                ev = {"ev": "remove", "x": st[1], "y": st[2], "rel": 0}
            else:
                bad_doc = {"wf": 0, "error": common.outcome(rs), "elems": [], "w": 0, "h": 0}
                doc = project(parts[pi], st[1], False) if pi < len(parts) else bad_doc
                pi += 1
                fr = fresp[fi]
                fi += 1
                fdoc = project(fr["svg"], st[1], False) if fr.get("ok") else bad_doc
                ev = {"ev": "render", "rel": 0, "props": clauses, "doc": doc, "fresh": {"rows": gen.rows_of(st[2]), "doc": fdoc}}
                meta.update({"state_text": st[2], "settings": {"scale": st[1]}})
            run.add_event(ev, meta)
    return len(plans)


def buffer_part(run, r, n, clauses, tag, model=False):
    """histories of one buffer object against Buffer.tla / BufferTrace.tla; a failing 'driver' clause (the text the
    driver paired with a render does not spell the state BufferTrace computed) is a defect of this harness"""
    if model:
        path = os.path.join(common.rundir(), "MC_Buffer.cfg")
        with open(path, "w") as f:
            f.write("CONSTANTS\n  W = 2\n  H = 2\n  Chars = {45, 124}\nSPECIFICATION Spec\n"
                    "INVARIANTS TypeOK WritesCommute WriteIdempotent RemoveUndoes\nCHECK_DEADLOCK FALSE\n")
        run.model("Buffer", path)
    old = run.classify

    def classify(preds):
        if "driver" in preds:
            raise common.ToolError("buffer history: the driver's state text does not spell the state of BufferTrace")
        return [(p_, None) for p_ in sorted(preds)]
    run.classify = classify
    k = buffer_histories(run, r, n, clauses, tag)
    run.validate(module="BufferTrace", cfg="BufferTrace.cfg", shard=1500)
    run.classify = old
    run.notes["buffer_histories"] = k
    return k
