"""Per-property plans (DESIGN.md section 4)."""
import os

from . import common, gen, observe
from .runner import Run, real_tuples, model_tuples, rows_text


def write_cfg(name, constants, invariants, init="MCInit", next_="Next", extra=""):
    path = os.path.join(common.rundir(), name + ".cfg")
    with open(path, "w") as f:
        f.write("CONSTANTS\n")
        for k, v in constants.items():
            f.write("  %s = %s\n" % (k, v))
        f.write("INIT %s\nNEXT %s\n" % (init, next_))
        if invariants:
            f.write("INVARIANTS " + " ".join(invariants) + "\n")
        f.write("CHECK_DEADLOCK FALSE\n" + extra)
    return path


def tla_set(codes):
    return "{" + ", ".join(str(c) for c in codes) + "}"


def replay_models(run, results, props, entry="to_svg", keep_all=True):
    """binding (A): replay TLC REPLAY behaviours into the real library; compare abstract
    documents as multisets (difference = drift, not a verdict); every real observation becomes
    an event for the trace specification, which evaluates the property on it"""
    behaviours = []
    for r in results:
        behaviours += common.tla_json_strings(r["lines"], "REPLAY")
    texts = [rows_text(b["rows"]) for b in behaviours]
    obs = observe.observe([{"input": t, "entry": entry} for t in texts], tag=run.prop + "A")
    for b, t, o in zip(behaviours, texts, obs):
        run.replayed += 1
        if o["out"] != "return" or real_tuples(o["doc"]) != model_tuples(b["out"]):
            run.drift += 1
            if len(run.drift_samples) < 5:
                run.drift_samples.append({"input": t, "model": b["out"],
                                          "real": sorted(map(list, real_tuples(o["doc"]).elements()), key=str)})
        run.add_event({"props": props, "rows": o["rows"], "doc": o["doc"]},
                      {"input": t, "entry": entry, "source": "tlc-replay"})
    if behaviours and not run.samples:
        run.samples.append({"input": texts[len(texts) // 2], "model_out": behaviours[len(texts) // 2]["out"]})
    return len(behaviours)


def observe_events(run, texts, props, source, entry="to_svg", settings=None, extra=None):
    cases = []
    for t in texts:
        c = {"input": t, "entry": entry}
        if settings:
            c["settings"] = settings
        cases.append(c)
    obs = observe.observe(cases, tag=run.prop + "B")
    for t, o in zip(texts, obs):
        ev = {"props": props, "rows": o["rows"], "doc": o["doc"]}
        if extra:
            ev.update(extra)
        run.add_event(ev, {"input": t, "entry": entry, "source": source})
    return obs


# ------------------------------------------------------------------------------------------
A1 = [32, 45, 124, 43]


def c03(tier):
    run = Run("C03", tier)
    run.rule = ("TLC enumerates every grid of the listed sizes over {space,-,|,+} (and one label); each is "
                "replayed into the real library and the recorded document is checked by the trace spec "
                "against RefStrokes/TextsExact; plus seeded random grids up to 14x8. Non-trivial = the grid "
                "denotes at least one stroke; events are de-duplicated by input text.")
    sizes = [(3, 2, A1 + [97]), (2, 3, A1 + [97]), (1, 6, A1), (6, 1, A1)]
    nrandom = 1000
    if tier == "thorough":
        sizes += [(2, 4, A1), (4, 2, A1), (1, 8, A1), (8, 1, A1), (3, 3, A1), (3, 3, A1 + [97])]
        nrandom = 100000
    results = []
    for w, h, alpha in sizes:
        cfg = write_cfg("MC_C03_%dx%d_%d" % (w, h, len(alpha)), {"W": w, "H": h, "Alphabet": tla_set(alpha)},
                        ["ModelC03", "SpansPartitionCells", "MergeFixpoint", "Emit"])
        results.append(run.model("MC_C03", cfg))
        replay_models(run, results[-1:], ["C03"])
        run.validate()
    run.exhaustive = True
    r = common.rng("C03")
    texts = []
    for i in range(nrandom):
        w, h = r.randint(1, 14), r.randint(1, 8)
        dens = r.choice([0.2, 0.4, 0.7])
        alpha = "-|+" if i % 2 == 0 else "-|+" + r.choice(gen.LABELS) + r.choice(gen.LABELS)
        texts.append(gen.random_grid(r, w, h, alpha, dens))
    texts = gen.dedup(texts)
    observe_events(run, texts, ["C03"], "random-grid")
    run.samples.append({"input": texts[0]})
    run.validate()
    run.assumptions = ["expat and the projection (verifpy/project.py) are trusted",
                       "TLC's evaluation of Reference!C03_OK is trusted",
                       "the guarantee about the code is per observed execution (bounded-exhaustive families + samples)"]
    return run.finish()


PLANS = {"C03": c03}
