"""Binding demonstrations (DESIGN.md 3.8): corrupt one recorded field or drop one hook event and
show that the trace specification rejects it.  ./check selftest ; exit 0 iff every corruption is
detected and every uncorrupted trace is accepted."""
import copy

from . import common, gen, observe, stages


def run():
    ok = True
    r = common.rng("selftest")
    # 1. DocTrace: a C03 event, a relational C06 pair, corrupted one field at a time
    t = "+--+\n|ab|\n+--+--\n"
    o = observe.observe([{"input": t}, {"input": gen.shift_text(t, 2, 1)}])
    base = {"props": ["C03", "C12", "C09", "C04", "C05s"], "rows": o[0]["rows"], "doc": o[0]["doc"]}
    sh = {"props": ["C06"], "rows": o[1]["rows"], "doc": o[1]["doc"], "rel": {"kind": "shift", "of": 1, "k": 2, "n": 1}}
    evs = [base, sh]
    expect = set()
    c1 = copy.deepcopy(base); c1["doc"]["elems"][0]["n"][0] += 8000; evs.append(c1); expect |= {(2, "C03")}      # moved coordinate
    c2 = copy.deepcopy(base); c2["doc"]["w"] += 8000; evs.append(c2); expect |= {(3, "C12")}                      # wrong canvas
    c3 = copy.deepcopy(base); c3["doc"]["elems"] = [e for e in c3["doc"]["elems"] if e["k"] != "text"]; evs.append(c3); expect |= {(4, "C03"), (4, "C04")}
    c4 = copy.deepcopy(sh); c4["rel"]["of"] = 4; c4["doc"]["elems"][0]["cls"] = ["broken", "nofill"]; c4["rel"] = {"kind": "shift", "of": 5, "k": 2, "n": 1}
    evs.append(c4); expect |= {(5, "C06")}                                                                          # class changed
    c5 = copy.deepcopy(sh); c5["rows"][1] = c5["rows"][1][1:]; c5["rel"] = {"kind": "shift", "of": 6, "k": 2, "n": 1}
    evs.append(c5); expect |= {(6, "C06")}                                                                          # input not the claimed shift
    res = common.validate_trace(evs, tag="self1")
    got = set(res["bad"])
    print("DocTrace: expected %s got %s" % (sorted(expect), sorted(got)))
    ok &= expect <= got and not any(i in (0, 1) for i, _ in got)
    # 2. PipelineTrace: drop one hook event; corrupt one fragment coordinate
    o = observe.observe([{"input": "+-+\n| |\n+-+"}], stages=True)[0]
    evs = stages.events_of(o["stages"])
    for e in evs:
        if e["ev"] != "cells":
            e["rel"] = 1
    good = common.validate_trace(copy.deepcopy(evs), module="PipelineTrace", cfg="PipelineTrace.cfg", tag="self2")
    dropped = [e for e in copy.deepcopy(evs) if e["ev"] != "contacts"][:]
    bad1 = common.validate_trace(dropped, module="PipelineTrace", cfg="PipelineTrace.cfg", tag="self3")
    corrupt = copy.deepcopy(evs)
    m = [e for e in corrupt if e["ev"] == "merged"][0]
    m["frags"][0]["e"][0] += 8
    bad2 = common.validate_trace(corrupt, module="PipelineTrace", cfg="PipelineTrace.cfg", tag="self4")
    print("PipelineTrace: intact %s, hook event removed %s, coordinate corrupted %s" % (good["bad"], bad1["bad"], bad2["bad"]))
    ok &= good["bad"] == [] and bad1["bad"] != [] and bad2["bad"] != []
    # 3. ServiceTrace: one differing digest; a second begin of the same table
    sv = [{"ev": "ret", "proc": 1, "thread": 0, "key": "k1", "sha": "aa"},
          {"ev": "lazy", "proc": 1, "thread": 1, "table": "T", "phase": "begin"},
          {"ev": "lazy", "proc": 1, "thread": 1, "table": "T", "phase": "end"},
          {"ev": "ret", "proc": 2, "thread": 0, "key": "k1", "sha": "aa"},
          {"ev": "ret", "proc": 2, "thread": 3, "key": "k1", "sha": "ab"},
          {"ev": "lazy", "proc": 1, "thread": 2, "table": "T", "phase": "begin"}]
    res = common.validate_trace(sv, module="ServiceTrace", cfg="ServiceTrace.cfg", shard=10 ** 9, tag="self5")
    print("ServiceTrace:", res["bad"])
    ok &= set(res["bad"]) == {(4, "C07"), (5, "once")}
    print("SELFTEST", "OK" if ok else "FAILED")
    return 0 if ok else 1
