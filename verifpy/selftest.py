"""Binding demonstrations (DESIGN.md 3.8): corrupt one recorded field or drop one hook event and
show that the trace specification rejects it.  ./check selftest ; exit 0 iff every corruption is
detected and every uncorrupted trace is accepted."""
import copy

from . import common, gen, observe, stages


def run():
    ok = True
    r = common.rng("selftest")
    # 1. DocTrace: a C03 event, a relational C06 pair, corrupted one field at a time
    t = "+--+\n|ab|\n+--+--\n"
    o = observe.observe([{"input": t}, {"input": gen.shift_text(t, 2, 1)}])
    base = {"props": ["C03", "C12", "C09", "C04", "C05s"], "rows": o[0]["rows"], "doc": o[0]["doc"]}
    sh = {"props": ["C06"], "rows": o[1]["rows"], "doc": o[1]["doc"], "rel": {"kind": "shift", "of": 1, "k": 2, "n": 1}}
    evs = [base, sh]
    expect = set()
    c1 = copy.deepcopy(base); c1["doc"]["elems"][0]["n"][0] += 8000; evs.append(c1); expect |= {(2, "C03")}      # moved coordinate
    c2 = copy.deepcopy(base); c2["doc"]["w"] += 8000; evs.append(c2); expect |= {(3, "C12")}                      # wrong canvas
    c3 = copy.deepcopy(base); c3["doc"]["elems"] = [e for e in c3["doc"]["elems"] if e["k"] != "text"]; evs.append(c3); expect |= {(4, "C03"), (4, "C04")}
    c4 = copy.deepcopy(sh); c4["rel"]["of"] = 4; c4["doc"]["elems"][0]["cls"] = ["broken", "nofill"]; c4["rel"] = {"kind": "shift", "of": 5, "k": 2, "n": 1}
    evs.append(c4); expect |= {(5, "C06")}                                                                          # class changed
    c5 = copy.deepcopy(sh); c5["rows"][1] = c5["rows"][1][1:]; c5["rel"] = {"kind": "shift", "of": 6, "k": 2, "n": 1}
    evs.append(c5); expect |= {(6, "C06")}                                                                          # input not the claimed shift
    res = common.validate_trace(evs, tag="self1")
    got = set(res["bad"])
    print("DocTrace: expected %s got %s" % (sorted(expect), sorted(got)))
    ok &= expect <= got and not any(i in (0, 1) for i, _ in got)
    # 2. PipelineTrace: drop one hook event; corrupt one fragment coordinate
    o = observe.observe([{"input": "+-+\n| |\n+-+"}], stages=True)[0]
    evs = stages.events_of(o["stages"])
    for e in evs:
        if e["ev"] != "cells":
            e["rel"] = 1
    good = common.validate_trace(copy.deepcopy(evs), module="PipelineTrace", cfg="PipelineTrace.cfg", tag="self2")
    dropped = [e for e in copy.deepcopy(evs) if e["ev"] != "contacts"][:]
    bad1 = common.validate_trace(dropped, module="PipelineTrace", cfg="PipelineTrace.cfg", tag="self3")
    corrupt = copy.deepcopy(evs)
    m = [e for e in corrupt if e["ev"] == "merged"][0]
    m["frags"][0]["e"][0] += 8
    bad2 = common.validate_trace(corrupt, module="PipelineTrace", cfg="PipelineTrace.cfg", tag="self4")
    print("PipelineTrace: intact %s, hook event removed %s, coordinate corrupted %s" % (good["bad"], bad1["bad"], bad2["bad"]))
    ok &= good["bad"] == [] and bad1["bad"] != [] and bad2["bad"] != []
    # 3. ServiceTrace: one differing digest; a second begin of the same table
    sv = [{"ev": "ret", "proc": 1, "thread": 0, "key": "k1", "sha": "aa"},
          {"ev": "lazy", "proc": 1, "thread": 1, "table": "T", "phase": "begin"},
          {"ev": "lazy", "proc": 1, "thread": 1, "table": "T", "phase": "end"},
          {"ev": "ret", "proc": 2, "thread": 0, "key": "k1", "sha": "aa"},
          {"ev": "ret", "proc": 2, "thread": 3, "key": "k1", "sha": "ab"},
          {"ev": "lazy", "proc": 1, "thread": 2, "table": "T", "phase": "begin"}]
    res = common.validate_trace(sv, module="ServiceTrace", cfg="ServiceTrace.cfg", shard=10 ** 9, tag="self5")
    print("ServiceTrace:", res["bad"])
    ok &= set(res["bad"]) == {(4, "C07"), (5, "once")}
    # 4. dressed events: the dress is checked, not believed; the oracle is evaluated on the drawing's own rows
    t = "+--+\n|ab|\n+--+--"
    od = observe.observe([{"input": t.replace("\n", " \t\r\n") + "\r\n\r\n"}, {"input": t + "\n\n# Legend:\na = {fill:red}\n"}])
    d1 = {"props": ["C03"], "rows": od[0]["rows"], "orows": gen.rows_of(t), "dec": "eol", "doc": od[0]["doc"]}
    d2 = {"props": ["C03"], "rows": od[1]["rows"], "orows": gen.rows_of(t), "dec": "legend", "doc": od[1]["doc"]}
    d3 = copy.deepcopy(d1); d3["orows"] = gen.rows_of("+--+\n|ab|\n+--+")            # not the drawing that was converted
    d4 = copy.deepcopy(d2); d4["dec"] = "eol"                                          # a legend passed off as trailing blanks
    d5 = copy.deepcopy(d2); d5["doc"]["elems"][0]["n"][0] += 8000                      # the oracle still bites
    res = common.validate_trace([d1, d2, d3, d4, d5], tag="self6")
    print("DocTrace (dressed):", res["bad"])
    ok &= set(i for i, _ in res["bad"]) == {2, 3, 4}
    # 5. BufferTrace: a recorded write moved, a render's page wrong, a render that differs from the fresh one
    class _R:
        def __init__(self):
            self.events, self.event_meta = [], []

        def add_event(self, ev, meta):
            self.events.append(ev)
            self.event_meta.append(meta)
    from . import props
    rb = _R()
    props.buffer_histories(rb, common.rng("selftest/buf"), 3, ["fresh", "scale", "canvas"], "selfB")
    good = common.validate_trace(copy.deepcopy(rb.events), module="BufferTrace", cfg="BufferTrace.cfg", tag="self7")
    ins = [i for i, e in enumerate(rb.events) if e["ev"] == "insert"]
    ren = [i for i, e in enumerate(rb.events) if e["ev"] == "render" and e["doc"]["elems"]]
    b1 = copy.deepcopy(rb.events); b1[ins[0]]["x"] += 40
    b2 = copy.deepcopy(rb.events); b2[ren[-1]]["doc"]["w"] += 8000
    b3 = copy.deepcopy(rb.events); b3[ren[0]]["doc"]["elems"] = b3[ren[0]]["doc"]["elems"][1:]
    r1 = common.validate_trace(b1, module="BufferTrace", cfg="BufferTrace.cfg", tag="self8")
    r2 = common.validate_trace(b2, module="BufferTrace", cfg="BufferTrace.cfg", tag="self9")
    r3 = common.validate_trace(b3, module="BufferTrace", cfg="BufferTrace.cfg", tag="self10")
    print("BufferTrace: intact %s, write moved %s, page wrong %s, element dropped %s" % (
        good["bad"], sorted(set(p for _, p in r1["bad"])), sorted(set(p for _, p in r2["bad"])), sorted(set(p for _, p in r3["bad"]))))
    ok &= (good["bad"] == [] and "driver" in set(p for _, p in r1["bad"]) and "canvas" in set(p for _, p in r2["bad"])
           and "fresh" in set(p for _, p in r3["bad"]))
    # 6. PipelineTrace, enclosure stage: a class name taken away from the forest the code logged
    o = observe.observe([{"input": "+------+\n| {ab} |\n+------+"}], stages=True)[0]
    evs = stages.events_of(o["stages"])
    for e in evs:
        if e["ev"] != "cells":
            e["rel"] = 1
    enc = [e for e in evs if e["ev"] == "enclose"][0]
    good = common.validate_trace(copy.deepcopy(evs), module="PipelineTrace", cfg="PipelineTrace.cfg", tag="self11")
    enc["flat"][0][1] = []
    bad = common.validate_trace(evs, module="PipelineTrace", cfg="PipelineTrace.cfg", tag="self12")
    print("PipelineTrace (enclose): intact %s, class name removed %s" % (good["bad"], bad["bad"]))
    ok &= good["bad"] == [] and any(p == "enclose" for _, p in bad["bad"])
    print("SELFTEST", "OK" if ok else "FAILED")
    return 0 if ok else 1
