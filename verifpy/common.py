"""Shared machinery: paths, harness build, bobdrive runner, TLC runner, evidence, findings."""
import fcntl
import hashlib
import json
import os
import random
import re
import shutil
import subprocess
import sys
import time

ROOT = os.path.dirname(os.path.dirname(os.path.abspath(__file__)))
REPO = os.environ.get("VERIF_REPO", "/repo")      # (VERIF_REPO: tools/mutant_iso.py runs a copy of the checks against a scratch worktree)
SPEC = os.path.join(ROOT, "spec")
WORK = os.path.join(ROOT, ".work")
HARNESS = os.path.join(ROOT, "harness")
BOBDRIVE = os.path.join(HARNESS, "target", "release", "bobdrive")
EVIDENCE = os.path.join(ROOT, "evidence")
REPLAYS = os.path.join(ROOT, "replays")
TLA_JAR = "/opt/veriftools/tla/tla2tools.jar"
NCPU = min(14, max(2, (os.cpu_count() or 4) - 2))


class ToolError(Exception):
    """a failure of the machinery itself (exit 2); never a property outcome"""


def log(*a):
    print(*a, file=sys.stderr, flush=True)


def seed():
    try:
        return int(os.environ.get("VERIF_SEED", "0"))
    except ValueError:
        return 0


def rng(tag):
    """deterministic random source derived from VERIF_SEED and a tag"""
    h = hashlib.sha256(("%d/%s" % (seed(), tag)).encode()).digest()
    return random.Random(int.from_bytes(h[:8], "big"))


_rundir = None
_rundir_lock = __import__("threading").Lock()


def rundir():
    global _rundir
    with _rundir_lock:
        if _rundir is None:
            d = os.path.join(WORK, "run-%d" % os.getpid())
            shutil.rmtree(d, ignore_errors=True)
            os.makedirs(d, exist_ok=True)
            _rundir = d
    return _rundir


def cleanup():
    if _rundir:
        shutil.rmtree(_rundir, ignore_errors=True)


class Lock:
    def __init__(self, name):
        os.makedirs(WORK, exist_ok=True)
        self.path = os.path.join(WORK, name + ".lock")

    def __enter__(self):
        self.f = open(self.path, "w")
        fcntl.flock(self.f, fcntl.LOCK_EX)
        return self

    def __exit__(self, *a):
        fcntl.flock(self.f, fcntl.LOCK_UN)
        self.f.close()


def build_harness():
    """incremental offline build of bobdrive against /repo's current working tree"""
    with Lock("cargo"):
        lock = os.path.join(HARNESS, "Cargo.lock")
        if not os.path.exists(lock):
            shutil.copy(os.path.join(REPO, "Cargo.lock"), lock)
        t0 = time.time()
        p = subprocess.run(["cargo", "build", "--release", "--offline"], cwd=HARNESS,
                           stdout=subprocess.PIPE, stderr=subprocess.STDOUT, text=True)
        if p.returncode != 0:
            log(p.stdout[-4000:])
            raise ToolError("harness build failed")
        log("[build] bobdrive ok in %.1fs" % (time.time() - t0))


def build_bins():
    """build svgbob_cli and svgbob_server from /repo into the harness target dir; /repo's
    stale Cargo.lock is saved and restored byte for byte"""
    tdir = os.path.join(HARNESS, "target", "repo-bins")
    with Lock("cargo"):
        lockfile = os.path.join(REPO, "Cargo.lock")
        saved = open(lockfile, "rb").read()
        try:
            t0 = time.time()
            p = subprocess.run(["cargo", "build", "--release", "--offline", "-p", "svgbob_cli",
                                "-p", "svgbob_server", "--target-dir", tdir], cwd=REPO,
                               stdout=subprocess.PIPE, stderr=subprocess.STDOUT, text=True)
            if p.returncode != 0:
                log(p.stdout[-4000:])
                raise ToolError("cli/server build failed")
            log("[build] cli+server ok in %.1fs" % (time.time() - t0))
        finally:
            if open(lockfile, "rb").read() != saved:
                open(lockfile, "wb").write(saved)
    return (os.path.join(tdir, "release", "svgbob_cli"),
            os.path.join(tdir, "release", "svgbob_server"))


# ----------------------------------------------------------------------------------------
# running the real library


def time_limit(n_chars):
    """L(n) of DESIGN.md C01: generous polynomial envelope, seconds"""
    return 10.0 + 2.0 * (n_chars / 1000.0) ** 2


_CLK = os.sysconf("SC_CLK_TCK") if hasattr(os, "sysconf") else 100


def _cpu_seconds(pid):
    """user + system CPU time of a running process (0.0 when it cannot be read)"""
    try:
        with open("/proc/%d/stat" % pid) as f:
            fields = f.read().rsplit(")", 1)[1].split()
        return (int(fields[11]) + int(fields[12])) / float(_CLK)
    except (OSError, ValueError, IndexError):
        return 0.0


def _run_shard(idx, reqs, tag):
    """run one bobdrive process over reqs with crash/timeout attribution; returns dict id->resp"""
    d = rundir()
    out = {}
    todo = list(reqs)
    attempt = 0
    while todo:
        attempt += 1
        uniq = random.randrange(1 << 40)
        fin = os.path.join(d, "%s-%d-%d-%x.in" % (tag, idx, attempt, uniq))
        fout = os.path.join(d, "%s-%d-%d-%x.out" % (tag, idx, attempt, uniq))
        with open(fin, "w") as f:
            for r in todo:
                f.write(json.dumps(r) + "\n")
        byid = {r["id"]: r for r in todo}
        proc = subprocess.Popen([BOBDRIVE, "batch", fin, fout], stdout=subprocess.DEVNULL,
                                stderr=subprocess.DEVNULL)
        last_size = -1
        last_change = time.time()
        cpu_at_change = 0.0
        inflight_limit = 30.0
        killed = False
        while True:
            try:
                proc.wait(timeout=0.2)
                break
            except subprocess.TimeoutExpired:
                pass
            try:
                size = os.path.getsize(fout)
            except OSError:
                size = 0
            now = time.time()
            cpu = _cpu_seconds(proc.pid)
            if size != last_size:
                last_size = size
                last_change = now
                cpu_at_change = cpu
                # find the request in flight to compute its limit
                try:
                    with open(fout, "rb") as f:
                        f.seek(max(0, size - 200))
                        tail = f.read().decode("utf-8", "replace")
                    m = re.findall(r'\{"begin":(\d+)\}', tail)
                    if m and int(m[-1]) in byid:
                        inflight_limit = time_limit(len(byid[int(m[-1])]["input"]))
                except OSError:
                    pass
            elif (cpu - cpu_at_change > inflight_limit) or (now - last_change > 30 * inflight_limit):
                # the limit L(n) is measured in CPU time of the converting process, so that a loaded machine cannot turn a
                # millisecond conversion into a "hang"; a process that burns no CPU at all (blocked) is given 30 x L(n) of
                # wall time before it counts as not terminating
                proc.kill()
                proc.wait()
                killed = True
                break
        begun = None
        done = set()
        try:
            with open(fout, "r", encoding="utf-8", errors="replace") as f:
                for line in f:
                    line = line.strip()
                    if not line:
                        continue
                    try:
                        r = json.loads(line)
                    except ValueError:
                        continue  # truncated last line
                    if "begin" in r:
                        begun = r["begin"]
                    elif "id" in r:
                        out[r["id"]] = r
                        done.add(r["id"])
        except OSError:
            pass
        for p_ in (fin, fout):
            try:
                os.remove(p_)
            except OSError:
                pass
        if proc.returncode == 0 and not killed:
            missing = [r for r in todo if r["id"] not in done]
            if missing:
                raise ToolError("bobdrive exited 0 but skipped requests")
            break
        # died or killed: blame the request in flight, resume after it
        if begun is None or begun in done:
            if attempt > 3:
                raise ToolError("bobdrive keeps dying before starting a request")
            todo = [r for r in todo if r["id"] not in done]
            continue
        out[begun] = {"id": begun, "ok": False, "outcome": "timeout" if killed else "abort",
                      "rc": proc.returncode, "stages": []}
        done.add(begun)
        todo = [r for r in todo if r["id"] not in done]
    return out


def run_requests(reqs, tag="b", workers=None):
    """run requests (dicts with unique 'id') through bobdrive in parallel worker processes.
    returns dict id -> response; response has ok, svg | panic | outcome"""
    from concurrent.futures import ThreadPoolExecutor
    if not reqs:
        return {}
    rec = os.environ.get("VERIF_RECORD")
    if rec:
        # tools/mkuniverse.py: every input any check sends to the library is recorded (family tag + text)
        with open(rec, "a", encoding="utf-8") as f:
            for q in reqs:
                if isinstance(q.get("input"), str):
                    f.write(json.dumps({"tag": tag, "t": q["input"]}) + "\n")
    workers = workers or NCPU
    workers = max(1, min(workers, (len(reqs) + 49) // 50))
    shards = [reqs[i::workers] for i in range(workers)]
    res = {}
    with ThreadPoolExecutor(max_workers=workers) as ex:
        for part in ex.map(lambda a: _run_shard(a[0], a[1], tag), list(enumerate(shards))):
            res.update(part)
    return res


def outcome(resp):
    if resp.get("ok"):
        return "return"
    if "outcome" in resp:
        return resp["outcome"]
    return "panic"


# ----------------------------------------------------------------------------------------
# TLC


def _java_env(extra=None, xss="1g", deque=False):
    env = dict(os.environ)
    opts = "-Xss%s" % xss
    if deque:
        opts += " -Dtlc2.tool.queue.IStateQueue=StateDeque"
    env["JAVA_TOOL_OPTIONS"] = opts
    if extra:
        env.update(extra)
    return env


TLC_STATS_RE = re.compile(r"(\d+) states generated, (\d+) distinct states found")


def run_tlc(module, cfg, workers=1, env=None, timeout=1800, xmx="4g", simulate=None, extra_args=None,
            deque=False, tag=None):
    """run TLC on spec/<module>.tla with spec/<cfg>; returns dict with output lines, stats.
    Raises ToolError on TLC failures that are not invariant/property violations."""
    d = rundir()
    tag = tag or module
    meta = os.path.join(d, "tlc-%s-%d-%d" % (tag, os.getpid(), random.randrange(1 << 30)))
    cmd = ["java", "-Xmx" + xmx, "-XX:+UseParallelGC", "-cp", TLA_JAR + ":" + os.path.dirname(TLA_JAR) + "/*",
           "tlc2.TLC", "-workers", str(workers), "-metadir", meta, "-cleanup", "-noGenerateSpecTE",
           "-config", cfg]
    if simulate:
        cmd += ["-simulate", simulate]
    if extra_args:
        cmd += extra_args
    cmd.append(module + ".tla")
    t0 = time.time()
    try:
        p = subprocess.run(cmd, cwd=SPEC, env=_java_env(env, deque=deque), stdout=subprocess.PIPE,
                           stderr=subprocess.STDOUT, text=True, timeout=timeout)
    except subprocess.TimeoutExpired:
        shutil.rmtree(meta, ignore_errors=True)
        raise ToolError("TLC timeout on %s/%s" % (module, cfg))
    shutil.rmtree(meta, ignore_errors=True)
    out = p.stdout
    lines = out.split("\n")
    res = {"rc": p.returncode, "lines": lines, "wall": time.time() - t0, "states": 0, "distinct": 0,
           "violation": None}
    for m in TLC_STATS_RE.finditer(out):
        res["states"], res["distinct"] = int(m.group(1)), int(m.group(2))
    if "Invariant " in out and " is violated" in out:
        res["violation"] = re.search(r"Invariant (\S+) is violated", out).group(1)
    elif "Temporal properties were violated" in out:
        res["violation"] = "temporal"
    elif "Deadlock reached" in out:
        res["violation"] = "deadlock"
    elif p.returncode != 0 and "Postcondition" in out and "violated" in out.lower():
        res["violation"] = "postcondition"
    elif p.returncode != 0:
        for i, ln in enumerate(lines):
            if ln.startswith("Error:") or "Attempted" in ln:
                log("\n".join(lines[i:i + 6]))
                break
        log(out[-1500:])
        raise ToolError("TLC failed on %s/%s rc=%d" % (module, cfg, p.returncode))
    return res


def tagged_lines(lines, tag):
    """extract PrintT(<<"TAG", ...>>) lines; returns the raw remainder strings"""
    pre = '<<"%s", ' % tag
    out = []
    for ln in lines:
        ln = ln.strip()
        if ln.startswith(pre) and ln.endswith(">>"):
            out.append(ln[len(pre):-2])
    return out


def tla_json_strings(lines, tag):
    """for PrintT(<<"TAG", ToJson(x)>>): returns the decoded JSON values"""
    vals = []
    for rest in tagged_lines(lines, tag):
        try:
            vals.append(json.loads(json.loads(rest)))
        except ValueError:
            raise ToolError("cannot decode %s line: %s" % (tag, rest[:200]))
    return vals


def validate_trace(events, module="DocTrace", cfg="DocTrace.cfg", shard=4000, tag="trace", timeout=3600):
    """validate recorded events with the trace specification, in parallel single-worker TLCs.
    Events are sharded so that an event and the events it refers to (rel.of = backward distance)
    stay in one shard: shards are cut only at events with 'cut': 1 or without 'rel'.
    returns dict(bad=[(global index, predicate)], nontrivial=int, states, transitions)"""
    from concurrent.futures import ThreadPoolExecutor
    d = rundir()
    shards = []
    cur = []
    for i, ev in enumerate(events):
        if len(cur) >= shard and "rel" not in ev:
            shards.append(cur)
            cur = []
        cur.append((i, ev))
    if cur:
        shards.append(cur)

    def one(k_sh):
        k, sh = k_sh
        path = os.path.join(d, "%s-%d.ndjson" % (tag, k))
        with open(path, "w") as f:
            for _, ev in sh:
                f.write(json.dumps(ev, separators=(",", ":")) + "\n")
        r = run_tlc(module, cfg, workers=1, env={"TRACE": path}, timeout=timeout, xmx="3g", deque=True,
                    tag="%s%d" % (tag, k))
        os.remove(path)
        if r["violation"] is not None:
            log("\n".join(r["lines"][-40:]))
            raise ToolError("trace spec %s did not accept shard %d (%s)" % (module, k, r["violation"]))
        counts = tagged_lines(r["lines"], "BADCOUNT")
        nts = tagged_lines(r["lines"], "NONTRIVIAL")
        bads = tagged_lines(r["lines"], "BAD")
        if len(counts) != 1 or int(counts[0]) != len(bads):
            log("\n".join(r["lines"][-40:]))
            raise ToolError("trace spec %s: inconsistent BAD report for shard %d" % (module, k))
        bad = []
        for b in bads:
            m = re.match(r'(\d+), "([^"]+)"$', b)
            bad.append((sh[int(m.group(1)) - 1][0], m.group(2)))
        nt = int(nts[0]) if nts else 0
        return bad, nt, r["states"], r["distinct"]

    bad, nt, st, di = [], 0, 0, 0
    with ThreadPoolExecutor(max_workers=NCPU) as ex:
        for b, n, s, dd in ex.map(one, list(enumerate(shards))):
            bad += b
            nt += n
            st += s
            di += dd
    return {"bad": sorted(bad), "nontrivial": nt, "states": di, "transitions": st, "events": len(events)}


# ----------------------------------------------------------------------------------------
# findings, replays, evidence


def load_findings():
    p = os.path.join(ROOT, "known_findings.json")
    if not os.path.exists(p):
        return []
    return json.load(open(p))["findings"]


def match_finding(prop, record):
    """a violation record matches a listed finding when every key of the finding's 'match' equals
    the record's value (input text, entry point, predicate ...)"""
    for f in load_findings():
        if f.get("status") != "finding" or f.get("property") != prop:
            continue
        m = f.get("match", {})
        if all(record.get(k) == v for k, v in m.items()):
            return f
    return None


def write_replay(prop, record):
    os.makedirs(os.path.join(REPLAYS, prop), exist_ok=True)
    blob = json.dumps(record, sort_keys=True, ensure_ascii=True)
    h = hashlib.sha256(blob.encode()).hexdigest()[:16]
    path = os.path.join(REPLAYS, prop, h + ".json")
    with open(path, "w") as f:
        f.write(json.dumps(record, indent=1, ensure_ascii=True))
    return path


def write_evidence(prop, tier, level, coverage, wall, violations, assumptions):
    os.makedirs(EVIDENCE, exist_ok=True)
    ev = {"property_id": prop, "tier": tier, "seed": seed(), "level": level, "coverage": coverage,
          "assumptions": assumptions, "wall_s": round(wall, 2), "violations": violations}
    tmp = os.path.join(EVIDENCE, ".%s.%d.tmp" % (prop, os.getpid()))
    with open(tmp, "w") as f:
        json.dump(ev, f, indent=1, ensure_ascii=True)
    os.replace(tmp, os.path.join(EVIDENCE, prop + ".json"))


def text_of(rows):
    return "\n".join(rows)


def run_threads(nthreads, reqs, tag="thr", timeout=3600, same_start=False):
    """bobdrive threads mode in a fresh process; returns (call lines, lazy lines)"""
    d = rundir()
    fin = os.path.join(d, "%s-%d.in" % (tag, random.randrange(1 << 30)))
    fout = fin[:-3] + ".out"
    with open(fin, "w") as f:
        for r in reqs:
            f.write(json.dumps(r) + "\n")
    p = subprocess.run([BOBDRIVE, "threads", str(nthreads), fin, fout] + (["same"] if same_start else []), stdout=subprocess.DEVNULL,
                       stderr=subprocess.PIPE, timeout=timeout)
    if p.returncode != 0:
        raise ToolError("bobdrive threads failed: %s" % p.stderr.decode()[-500:])
    calls, lazy = [], []
    with open(fout, encoding="utf-8") as f:
        for line in f:
            r = json.loads(line)
            if "lazy" in r:
                lazy.append(r["lazy"])
            else:
                calls.append(r)
    os.remove(fin)
    os.remove(fout)
    return calls, lazy


def run_batch_process(reqs, tag="proc", timeout=3600):
    """one fresh bobdrive batch process over reqs in the given order; returns responses in order"""
    d = rundir()
    fin = os.path.join(d, "%s-%d.in" % (tag, random.randrange(1 << 30)))
    fout = fin[:-3] + ".out"
    with open(fin, "w") as f:
        for r in reqs:
            f.write(json.dumps(r) + "\n")
    p = subprocess.run([BOBDRIVE, "batch", fin, fout], stdout=subprocess.DEVNULL, stderr=subprocess.PIPE, timeout=timeout)
    out = []
    with open(fout, encoding="utf-8") as f:
        for line in f:
            r = json.loads(line)
            if "id" in r:
                out.append(r)
    os.remove(fin)
    os.remove(fout)
    if p.returncode != 0 or len(out) != len(reqs):
        raise ToolError("bobdrive batch process failed (rc=%s, %d/%d)" % (p.returncode, len(out), len(reqs)))
    return out
