"""Input generators (all randomness derives from VERIF_SEED through common.rng)."""
import itertools
import os

from . import common

LABELS = "abcdefghijklmnpqrstuwyzABCDEFGHIJKLMNPQRSTUWYZ0123456789"  # no drawing meaning

BUNDLED = os.path.join(common.REPO, "crates", "svgbob", "test_data")


def rows_of(text):
    """input text -> rows of code points, as the specification sees the input"""
    return [[ord(c) for c in line] for line in text.split("\n")]


def random_grid(r, w, h, alphabet, density):
    rows = []
    for _ in range(h):
        rows.append("".join(r.choice(alphabet) if r.random() < density else " " for _ in range(w)))
    return "\n".join(rows)


def all_grids(w, h, alphabet):
    for combo in itertools.product(alphabet, repeat=w * h):
        yield "\n".join("".join(combo[i * w:(i + 1) * w]) for i in range(h))


def bundled_files():
    out = []
    for name in sorted(os.listdir(BUNDLED)):
        if name.endswith(".bob"):
            with open(os.path.join(BUNDLED, name), encoding="utf-8") as f:
                out.append((name, f.read()))
    return out


def dedup(texts):
    seen = set()
    out = []
    for t in texts:
        if t not in seen:
            seen.add(t)
            out.append(t)
    return out
