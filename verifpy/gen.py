"""Input generators (all randomness derives from VERIF_SEED through common.rng)."""
import itertools
import os

from . import common

LABELS = "abcdefghijklmnpqrstuwyzABCDEFGHIJKLMNPQRSTUWYZ0123456789"  # no drawing meaning

BUNDLED = os.path.join(common.REPO, "crates", "svgbob", "test_data")


def rows_of(text):
    """input text -> rows of code points, as the specification sees the input"""
    return [[ord(c) for c in line] for line in text.split("\n")]


def random_grid(r, w, h, alphabet, density):
    rows = []
    for _ in range(h):
        rows.append("".join(r.choice(alphabet) if r.random() < density else " " for _ in range(w)))
    return "\n".join(rows)


def all_grids(w, h, alphabet):
    for combo in itertools.product(alphabet, repeat=w * h):
        yield "\n".join("".join(combo[i * w:(i + 1) * w]) for i in range(h))


def bundled_files():
    out = []
    for name in sorted(os.listdir(BUNDLED)):
        if name.endswith(".bob"):
            with open(os.path.join(BUNDLED, name), encoding="utf-8") as f:
                out.append((name, f.read()))
    return out


def dedup(texts):
    seen = set()
    out = []
    for t in texts:
        if t not in seen:
            seen.add(t)
            out.append(t)
    return out


ASCII_DRAW = "-~|!:+X*#oO_.,'`/\\()Vv^><="
UNI_DRAW = "‾¯─–—┄│╎┊┆╲╱╳┼═□▏▕║∠⋀△▾▼▴▲▸◂▶►◀◄◆▪▁▂▃▄▅▆▇█⌊≠╪╫⊕○⦵●￮┌┐┘└├┤┬┴╭╮╰╯◜◝◟◞╔╗╚╝╒╓╬╦╩╠╣╞╡╤╥╖╙╜╕╛╘╢╟╧╨⤹"
FULL = ASCII_DRAW + UNI_DRAW
WIDE = "一二三中文字日本語かなカナ한글가나"   # East Asian Wide in every Unicode version
LATIN = "éüñßçøåæ"
CYRIL = "дфжяюы"


def box(w, h, style="sharp", text=None):
    """a closed box with interior w x h (w, h >= 0)"""
    tl, tr, bl, br, hz, vt = {
        "sharp": "++++-|", "round": ".,'`-|"[0] + "." + "'" + "'" + "-|",
        "round2": ",.`'-|", "dashed": "++++~:", "dashed2": "++++-!",
        "uni": "┌┐└┘─│", "uniround": "╭╮╰╯─│", "double": "╔╗╚╝═║",
    }[style]
    rows = [tl + hz * w + tr]
    for i in range(h):
        inner = " " * w
        if text and i == h // 2:
            inner = (text[:w]).ljust(w)
        rows.append(vt + inner + vt)
    rows.append(bl + hz * w + br)
    return "\n".join(rows)


def diagonal(n, ch="\\"):
    if ch == "\\":
        return "\n".join(" " * i + "\\" for i in range(n))
    return "\n".join(" " * (n - 1 - i) + "/" for i in range(n))


def hrun(n, ch="-"):
    return ch * n


def vrun(n, ch="|"):
    return "\n".join(ch for _ in range(n))


def paste(blocks, r=None):
    """place text blocks side by side with one blank column in between"""
    out = []
    for b in blocks:
        lines = b.split("\n")
        wd = max(len(x) for x in lines) if lines else 0
        if not out:
            out = [x.ljust(wd) for x in lines]
            continue
        cur = max(len(x) for x in out)
        h = max(len(out), len(lines))
        out = [(out[i] if i < len(out) else "").ljust(cur) + "  " + (lines[i] if i < len(lines) else "")
               for i in range(h)]
    return "\n".join(x.rstrip() for x in out)


def bundled_chunks(max_lines=40):
    """the bundled example files cut into paragraphs (blank-line separated blocks)"""
    out = []
    for name, text in bundled_files():
        text = text.split("# Legend:")[0]
        block = []
        for line in text.split("\n") + [""]:
            if line.strip() == "":
                if block:
                    out.append("\n".join(block))
                    block = []
            else:
                block.append(line)
    return dedup([b for b in out if len(b.split("\n")) <= max_lines])


def mixed_corpus(r, n, tags=False):
    """legend-free inputs over the full drawing alphabet: random grids of several densities,
    parametric shapes, paragraphs of the bundled examples"""
    chunks = bundled_chunks()
    out = []
    styles = ["sharp", "round", "round2", "dashed", "dashed2", "uni", "uniround", "double"]
    for i in range(n):
        kind = i % 8
        if kind == 0:
            out.append(random_grid(r, r.randint(1, 14), r.randint(1, 8), FULL + LABELS[:6], r.choice([0.15, 0.4, 0.8])))
        elif kind == 1:
            out.append(random_grid(r, r.randint(1, 14), r.randint(1, 8), ASCII_DRAW, r.choice([0.3, 0.6, 0.9])))
        elif kind == 2:
            out.append(random_grid(r, r.randint(2, 10), r.randint(2, 6), "-|+.'`,/\\()_ ", 0.8))
        elif kind == 3:
            out.append(box(r.randint(0, 12), r.randint(0, 5), r.choice(styles), r.choice([None, "ab", "Hello"])))
        elif kind == 4:
            out.append(r.choice(chunks))
        elif kind == 5:
            out.append(paste([box(r.randint(1, 5), r.randint(0, 3), r.choice(styles)),
                              diagonal(r.randint(2, 12), r.choice("/\\")),
                              r.choice(["o-->", "<--*", "^\n|\n|", "|\nv", "*--o--O", "-->o", "#--#"])]))
        elif kind == 6:
            out.append(random_grid(r, r.randint(3, 12), r.randint(2, 6), "-|+<>^vV*oO#/\\ ", 0.7))
        else:
            w = r.randint(1, 12)
            out.append(random_grid(r, w, r.randint(1, 5), LABELS[:8] + WIDE[:4] + LATIN[:3] + "-|+ ", 0.5))
    return dedup(out)


def shift_text(t, k, n):
    return "\n" * n + "\n".join(" " * k + line for line in t.split("\n"))
