"""Input generators (all randomness derives from VERIF_SEED through common.rng)."""
import itertools
import os

from . import common

LABELS = "abcdefghijklmnpqrstuwyzABCDEFGHIJKLMNPQRSTUWYZ0123456789"  # no drawing meaning

BUNDLED = os.path.join(common.REPO, "crates", "svgbob", "test_data")


def rows_of(text):
    """input text -> rows of code points, as the specification sees the input"""
    return [[ord(c) for c in line] for line in text.split("\n")]


def random_grid(r, w, h, alphabet, density):
    rows = []
    for _ in range(h):
        rows.append("".join(r.choice(alphabet) if r.random() < density else " " for _ in range(w)))
    return "\n".join(rows)


def all_grids(w, h, alphabet):
    for combo in itertools.product(alphabet, repeat=w * h):
        yield "\n".join("".join(combo[i * w:(i + 1) * w]) for i in range(h))


def bundled_files():
    out = []
    for name in sorted(os.listdir(BUNDLED)):
        if name.endswith(".bob"):
            with open(os.path.join(BUNDLED, name), encoding="utf-8") as f:
                out.append((name, f.read()))
    return out


def dedup(texts):
    seen = set()
    out = []
    for t in texts:
        if t not in seen:
            seen.add(t)
            out.append(t)
    return out


ASCII_DRAW = "-~|!:+X*#oO_.,'`/\\()Vv^><="
UNI_DRAW = "‾¯─–—┄│╎┊┆╲╱╳┼═□▏▕║∠⋀△▾▼▴▲▸◂▶►◀◄◆▪▁▂▃▄▅▆▇█⌊≠╪╫⊕○⦵●￮┌┐┘└├┤┬┴╭╮╰╯◜◝◟◞╔╗╚╝╒╓╬╦╩╠╣╞╡╤╥╖╙╜╕╛╘╢╟╧╨⤹"
FULL = ASCII_DRAW + UNI_DRAW
# East Asian Wide in every Unicode version: CJK, kana, Hangul syllables; Hangul leading consonants (U+1100.., the
# only wide block below U+2E80), fullwidth forms, and one supplementary-plane ideograph (four UTF-8 bytes)
WIDE = "一二三中文字日本語かなカナ한글가나" + "\u1100\u1112\uff01\uff21\U00020000"
LATIN = "éüñßçøåæ"
CYRIL = "дфжяюы"


def box(w, h, style="sharp", text=None):
    """a closed box with interior w x h (w, h >= 0)"""
    tl, tr, bl, br, hz, vt = {
        "sharp": "++++-|", "round": ".,'`-|"[0] + "." + "'" + "'" + "-|",
        "round2": ",.`'-|", "dashed": "++++~:", "dashed2": "++++-!",
        "uni": "┌┐└┘─│", "uniround": "╭╮╰╯─│", "double": "╔╗╚╝═║",
    }[style]
    rows = [tl + hz * w + tr]
    for i in range(h):
        inner = " " * w
        if text and i == h // 2:
            inner = (text[:w]).ljust(w)
        rows.append(vt + inner + vt)
    rows.append(bl + hz * w + br)
    return "\n".join(rows)


def diagonal(n, ch="\\"):
    if ch == "\\":
        return "\n".join(" " * i + "\\" for i in range(n))
    return "\n".join(" " * (n - 1 - i) + "/" for i in range(n))


def hrun(n, ch="-"):
    return ch * n


def vrun(n, ch="|"):
    return "\n".join(ch for _ in range(n))


def paste(blocks, r=None):
    """place text blocks side by side with one blank column in between"""
    out = []
    for b in blocks:
        lines = b.split("\n")
        wd = max(len(x) for x in lines) if lines else 0
        if not out:
            out = [x.ljust(wd) for x in lines]
            continue
        cur = max(len(x) for x in out)
        h = max(len(out), len(lines))
        out = [(out[i] if i < len(out) else "").ljust(cur) + "  " + (lines[i] if i < len(lines) else "")
               for i in range(h)]
    return "\n".join(x.rstrip() for x in out)


def bundled_chunks(max_lines=40):
    """the bundled example files cut into paragraphs (blank-line separated blocks)"""
    out = []
    for name, text in bundled_files():
        text = text.split("# Legend:")[0]
        block = []
        for line in text.split("\n") + [""]:
            if line.strip() == "":
                if block:
                    out.append("\n".join(block))
                    block = []
            else:
                block.append(line)
    return dedup([b for b in out if len(b.split("\n")) <= max_lines])


def mixed_corpus(r, n, tags=False):
    """legend-free inputs over the full drawing alphabet: random grids of several densities,
    parametric shapes, paragraphs of the bundled examples"""
    chunks = bundled_chunks()
    out = []
    styles = ["sharp", "round", "round2", "dashed", "dashed2", "uni", "uniround", "double"]
    for i in range(n):
        kind = i % 8
        if i % 5 == 4:
            # structured families (added as the seeded changes showed what random grids hardly ever contain)
            sub = (i // 5) % 6
            words = ["".join(r.choice(LABELS[:10]) for _ in range(r.randint(1, 4))) for _ in range(r.randint(1, 3))]
            if sub == 0:
                out.append(scene(r, words))
            elif sub == 1:
                out.append(catalogue_scene(r, words))
            elif sub == 2:
                out.append(nested_grid(r, "-|+" + LABELS[:2]))
            elif sub == 3:
                out.append(comb_grid(r))
            elif sub == 4:
                out.append(walk_grid(r))
            else:
                out.append(random_grid(r, r.randint(3, 10), r.randint(2, 4), r.choice(["_‾¯ ", "▏▕|_‾ ", "_‾-= "]), 0.6))
            continue
        if kind == 0:
            out.append(random_grid(r, r.randint(1, 14), r.randint(1, 8), FULL + LABELS[:6], r.choice([0.15, 0.4, 0.8])))
        elif kind == 1:
            out.append(random_grid(r, r.randint(1, 14), r.randint(1, 8), ASCII_DRAW, r.choice([0.3, 0.6, 0.9])))
        elif kind == 2:
            out.append(random_grid(r, r.randint(2, 10), r.randint(2, 6), "-|+.'`,/\\()_ ", 0.8))
        elif kind == 3:
            out.append(box(r.randint(0, 12), r.randint(0, 5), r.choice(styles), r.choice([None, "ab", "Hello"])))
        elif kind == 4:
            out.append(r.choice(chunks))
        elif kind == 5:
            out.append(paste([box(r.randint(1, 5), r.randint(0, 3), r.choice(styles)),
                              diagonal(r.randint(2, 12), r.choice("/\\")),
                              r.choice(["o-->", "<--*", "^\n|\n|", "|\nv", "*--o--O", "-->o", "#--#"])]))
        elif kind == 6:
            out.append(random_grid(r, r.randint(3, 12), r.randint(2, 6), "-|+<>^vV*oO#/\\ ", 0.7))
        else:
            w = r.randint(1, 12)
            out.append(random_grid(r, w, r.randint(1, 5), LABELS[:8] + WIDE[:4] + LATIN[:3] + "-|+ ", 0.5))
    return dedup(out)


def shift_text(t, k, n):
    return "\n" * n + "\n".join(" " * k + line for line in t.split("\n"))


def scene(r, words, wmax=24, hmax=12):
    """a picture made of a few large shapes (long diagonals, parallel diagonals, boxes, nested boxes, long strokes)
    with the given words dropped into cells that are still blank: inside, between and beside the shapes, so that a
    word can lie in the bounding boxes of several separate shapes at once"""
    W, H = r.randint(8, wmax), r.randint(4, hmax)
    g = [[" "] * W for _ in range(H)]

    slots = []       # places between two parallel strokes / under a long diagonal, tried first for the words

    def put(x, y, ch):
        if 0 <= x < W and 0 <= y < H:
            g[y][x] = ch
    for _ in range(r.randint(1, 4)):
        kind = r.choice(["bs", "sl", "par", "par", "par", "box", "nest", "h", "v"])
        x, y = r.randint(0, W - 2), r.randint(0, H - 2)
        if kind in ("bs", "sl", "par"):
            L = r.randint(3, max(H, 4))
            ch = "\\" if kind == "bs" or (kind == "par" and r.random() < 0.5) else "/"
            gap = r.randint(2, 5) if kind == "par" else 0
            for i in range(L):
                xx = x + i if ch == "\\" else x + L - 1 - i
                put(xx, y + i, ch)
                if gap:
                    put(xx + gap, y + i, ch)
                    slots.append((xx + 1, y + i))
                elif i > 1:
                    slots.append((xx + (2 if ch == "/" else -3), y + i))
        elif kind in ("box", "nest"):
            w, h = r.randint(3, 10), r.randint(1, 4)
            for lvl in range(2 if kind == "nest" else 1):
                x0, y0, w0, h0 = x + 2 * lvl, y + lvl, w - 4 * lvl, h - 2 * lvl
                if w0 < 1 or h0 < 1 and lvl:
                    break
                for i in range(w0 + 2):
                    put(x0 + i, y0, "-"); put(x0 + i, y0 + h0 + 1, "-")
                for j in range(h0 + 2):
                    put(x0, y0 + j, "|"); put(x0 + w0 + 1, y0 + j, "|")
                for (cx, cy) in ((x0, y0), (x0 + w0 + 1, y0), (x0, y0 + h0 + 1), (x0 + w0 + 1, y0 + h0 + 1)):
                    put(cx, cy, "+")
        elif kind == "h":
            for i in range(r.randint(3, W)):
                put(x + i, y, "-")
        else:
            for j in range(r.randint(2, H)):
                put(x, y + j, "|")
    for wd in words:
        for _try in range(20):
            x, y = r.randint(0, max(W - len(wd), 0)), r.randint(0, H - 1)
            if slots and _try < 3 and r.random() < 0.7:
                x, y = r.choice(slots)
            if not (0 <= x and 0 <= y < H):
                continue
            if all(x + i < W and g[y][x + i] == " " for i in range(len(wd))):
                for i, ch in enumerate(wd):
                    g[y][x + i] = ch
                break
    return "\n".join("".join(row).rstrip() for row in g)


def nested_grid(r, alpha, wmax=14, hmax=8):
    """a grid over '-|+' (and labels) with structure: two to four boxes nested in each other, the innermost interior
    (and sometimes the rings between the boxes) filled at random from alpha"""
    depth = r.randint(2, 4)
    iw, ih = r.randint(1, max(wmax - 2 * depth, 1)), r.randint(1, max(hmax - 2 * depth, 1))
    dens = r.choice([0.3, 0.6, 0.9])
    rows = ["".join(r.choice(alpha) if r.random() < dens else " " for _ in range(iw)) for _ in range(ih)]
    for lvl in range(depth):
        pad = r.choice([0, 0, 1]) if lvl else 0          # sometimes a ring of free cells between two boxes
        for _ in range(pad):
            w = len(rows[0])
            ring = lambda n: "".join(r.choice(alpha) if r.random() < 0.2 else " " for _ in range(n))
            rows = [ring(w + 2)] + [ring(1) + x + ring(1) for x in rows] + [ring(w + 2)]
        w = len(rows[0])
        rows = ["+" + "-" * w + "+"] + ["|" + x + "|" for x in rows] + ["+" + "-" * w + "+"]
    return "\n".join(x.rstrip() for x in rows)


_CAT = None


def catalogue_art(r):
    """one drawing of the circle catalogue or of its arc tables (three-quarter, half, quarter), as rows"""
    global _CAT
    import json, os
    if _CAT is None:
        here = os.path.dirname(os.path.abspath(__file__))
        cat = json.load(open(os.path.join(here, "catalogue.json"), encoding="utf-8"))
        tabs = json.load(open(os.path.join(here, "catalogue_tables.json"), encoding="utf-8"))
        arts = [list(d) for d in cat]
        for key in ("three_quarters", "half", "quarter"):
            for e in tabs[key]:
                cells = {(c[0], c[1]): chr(c[2]) for c in e["span"]}
                hh = max(y for (_, y) in cells) + 1
                ww = max(x for (x, _) in cells) + 1
                arts.append(["".join(cells.get((x, y), " ") for x in range(ww)).rstrip() for y in range(hh)])
        _CAT = arts
    return list(r.choice(_CAT[:22]) if r.random() < 0.5 else r.choice(_CAT))


def catalogue_scene(r, words):
    """a catalogue circle or arc away from the origin with words written into blank cells in and around it (touching
    it or not), and sometimes a box or a stroke attached to it, so that the drawing is recognised together with
    other cells of its span, or only at the second attempt"""
    D = catalogue_art(r)
    w = max(len(x) for x in D)
    rows = [list(x.ljust(w + 8)) for x in D]
    mid = len(rows) // 2
    att = r.choice(["none", "none", "stroke", "box", "circle"])
    if att == "stroke":
        for i in range(3):
            rows[mid][w + i] = "-"
    elif att == "box" and len(rows) >= 3:
        for (dy, txt) in ((-1, "+--+"), (0, "|  |"), (1, "+--+")):
            for i, ch in enumerate(txt):
                rows[mid + dy][w + i] = ch
    elif att == "circle":
        for y, x in enumerate(D):
            for i, ch in enumerate(x):
                if ch != " " and w + i < len(rows[y]):
                    rows[y][w + i] = ch
    for wd in words:
        for _try in range(30):
            y, x = r.randrange(len(rows)), r.randrange(0, len(rows[0]) - len(wd))
            if all(rows[y][x + i] == " " for i in range(len(wd))):
                for i, ch in enumerate(wd):
                    rows[y][x + i] = ch
                break
    k, n = r.randint(0, 7), r.randint(0, 3)
    return "\n" * n + "\n".join(" " * k + "".join(x).rstrip() for x in rows)


def comb_grid(r):
    """a bus with taps: a horizontal run with a lead-in and junctions, from which bars go up and / or down; grouping
    its cells takes several passes of a greedy merge (each tap is a group of its own until the bus reaches it)"""
    taps, lead, pitch = r.choice([r.randint(1, 8), r.randint(1, 8), r.randint(9, 40), r.randint(60, 90)]), r.randint(0, 4), r.choice([1, 2, 2, 3])
    up, down = r.randint(0, 3), r.randint(0, 3)
    if up == 0 and down == 0:
        up = 1
    width = lead + taps * pitch + r.randint(0, 2)
    bus = ["-"] * width
    cols = [lead + i * pitch + (pitch - 1) for i in range(taps)]
    for c in cols:
        bus[c] = "+"
    rows = []
    for i in range(up):
        rows.append("".join("|" if x in cols and r.random() < 0.9 else " " for x in range(width)))
    rows.append("".join(bus))
    for i in range(down):
        rows.append("".join("|" if x in cols and r.random() < 0.9 else " " for x in range(width)))
    return "\n".join(x.rstrip() for x in rows)


def walk_grid(r, wmax=14, hmax=8):
    """one or two long thin paths of - | + drawn by a random walk that turns at '+': chains whose cells are met in
    an order unrelated to their connection"""
    W, H = r.randint(4, wmax), r.randint(3, hmax)
    g = [[" "] * W for _ in range(H)]
    for _path in range(r.randint(1, 2)):
        x, y = r.randrange(W), r.randrange(H)
        dx, dy = r.choice([(1, 0), (-1, 0), (0, 1), (0, -1)])
        for _step in range(r.randint(6, 40)):
            nx, ny = x + dx, y + dy
            if not (0 <= nx < W and 0 <= ny < H) or r.random() < 0.25:
                g[y][x] = "+"
                dx, dy = r.choice([(1, 0), (-1, 0), (0, 1), (0, -1)])
                continue
            if g[y][x] == " ":
                g[y][x] = "-" if dx else "|"
            x, y = nx, ny
    return "\n".join("".join(row).rstrip() for row in g)


def hatch_grid(r, diag="/"):
    """a hatched triangle: bars hanging from the top row at the columns 0, 2, 4, ..., each two rows shorter than its left
    neighbour; a '/' run from the top right down to a '+' beside the lower end of the first bar, which goes on for a few
    more rows: grouping its cells takes one merge pass per bar.  (diag: the character the slanted run is made of; C03
    asks for '+', which keeps the cells 8-connected in the same way inside its own alphabet)"""
    nb = r.choice([r.randint(3, 7), r.randint(8, 14), r.randint(15, 30)])
    tail = r.randint(1, 4)
    width = 2 * nb
    rows = width + tail
    g = [[" "] * (width + 1) for _ in range(rows)]
    for i in range(nb):
        x = 2 * i
        for y in range(width - x):
            g[y][x] = "|"
    for y in range(width):
        g[y][width - y] = diag
    g[width - 1][1] = "+"
    for y in range(width, rows):
        g[y][0] = "|"
    return "\n".join("".join(row).rstrip() for row in g)


# ------------------------------------------------------------------------------------------
# the shared pool (tools/mkuniverse.py): what every property's own generators produce, offered to every other property
# whose quantifier admits it
_UNI = None
STABLE = None


def universe(r=None, n=None, want=None):
    """inputs of the frozen pool verifpy/universe.json; `want(text)` filters by the quantifier of the asking property;
    n: how many (drawn with r), None = all"""
    global _UNI
    if _UNI is None:
        import json
        with open(os.path.join(os.path.dirname(os.path.abspath(__file__)), "universe.json"), encoding="utf-8") as f:
            _UNI = [x["t"] for x in json.load(f)]
    ts = [t for t in _UNI if want is None or want(t)]
    if n is not None and r is not None and len(ts) > n:
        ts = r.sample(ts, n)
    return ts


def tame(t):
    """only characters whose display width every table agrees on and that the reference operators describe: printable
    ASCII, the drawing glyphs, the label scripts and the wide characters the drivers use; no tabs, CR, controls,
    zero-width or combining characters"""
    global STABLE
    if STABLE is None:
        STABLE = set(FULL + WIDE + LATIN + CYRIL + "\n" + "".join(chr(c) for c in range(32, 127)))
    return all(ch in STABLE for ch in t)


def has_legend(t):
    return "# Legend:" in t


def plain_lines(t):
    """no tab, CR or other control character (a text the row-level relations can shift, juxtapose and re-dress)"""
    return all(ch == "\n" or ord(ch) >= 32 for ch in t) and "\x7f" not in t


def header_at_line_start(t):
    """every '# Legend:' in the text starts its line (a header in the middle of a line is outside the statements)"""
    return all(ln.startswith("# Legend:") for ln in t.split("\n") if "# Legend:" in ln)


def rail_grid(r):
    """two rails '+---+' with rows of two bars between them: the bars under the corners (a box), or one or both of them
    somewhere else (inside, outside, different in every row), the lower rail the same, shorter, longer or moved - everything
    a recogniser of "boxes" might mistake for one; characters - | + and blanks only"""
    w, h, k = r.randint(0, 8), r.randint(1, 4), r.randint(0, 3)
    top = " " * k + "+" + "-" * w + "+"
    mode = r.choice(["box", "one_in", "both_in", "out", "wander", "swap_rail"])
    rows = [top]
    c1, c2 = k, k + w + 1
    if mode == "one_in":
        if r.random() < 0.5:
            c1 = r.randint(k, max(k, c2 - 1))
        else:
            c2 = r.randint(min(c1 + 1, c2), c2)
    elif mode == "both_in":
        c1 = r.randint(k, k + w)
        c2 = r.randint(c1 + 1, k + w + 1)
    elif mode == "out":
        c1, c2 = max(0, k - r.randint(0, 1)), k + w + 1 + r.randint(0, 1)
    for _ in range(h):
        a, b = c1, c2
        if mode == "wander":
            a = max(0, c1 + r.randint(-1, 1))
            b = max(a + 1, c2 + r.randint(-1, 1))
        row = [" "] * (max(b, k + w + 2) + 1)
        row[a] = "|"
        row[b] = "|"
        rows.append("".join(row).rstrip())
    bot = top
    if mode == "swap_rail" or r.random() < 0.2:
        bot = r.choice([" " * max(0, k + r.randint(-1, 1)) + "+" + "-" * max(0, w + r.randint(-1, 1)) + "+", top.replace("+", "-", 1), top])
    rows.append(bot)
    return "\n".join(rows)


def framed(t, r=None):
    """the text inside a large box, one blank cell away from it on every side"""
    rows = t.split("\n")
    w = max([len(x) for x in rows] + [1])
    top = "+" + "-" * (w + 2) + "+"
    return "\n".join([top, "|" + " " * (w + 2) + "|"] + ["| " + x.ljust(w) + " |" for x in rows] + ["|" + " " * (w + 2) + "|", top])


def scene_with_block(r, block, wmax=34, hmax=16):
    """a scene (gen.scene) with a multi-row block placed where it touches nothing (one blank cell all around); returns
    (text, column, row) of the block's top-left cell, or None when there is no room"""
    base = scene(r, [], wmax=wmax, hmax=hmax).split("\n")
    H = max(len(base), len(block) + 2)
    W = max([len(x) for x in base] + [max(len(b) for b in block) + 2])
    g = [list(x.ljust(W)) for x in base] + [[" "] * W for _ in range(H - len(base))]
    bw, bh = max(len(b) for b in block), len(block)
    spots = []
    for y in range(0, H - bh + 1):
        for x in range(0, W - bw + 1):
            if all(g[yy][xx] == " " for yy in range(max(0, y - 1), min(H, y + bh + 1)) for xx in range(max(0, x - 1), min(W, x + bw + 1))):
                spots.append((x, y))
    if not spots:
        return None
    x, y = r.choice(spots)
    for j, row in enumerate(block):
        for i, ch in enumerate(row):
            if ch != " ":
                g[y + j][x + i] = ch
    return "\n".join("".join(row).rstrip() for row in g), x, y


def box_with_crossings(r):
    """a closed box of - | + with strokes that cross or leave its walls: dashes on both sides of a wall cell, bars above and below
    an edge cell, stubs attached outside or inside (characters - | + only)"""
    w, h, k, n = r.randint(2, 8), r.randint(1, 4), r.randint(2, 4), r.randint(1, 2)
    W, H = k + w + 2 + 3, n + h + 2 + 2
    g = [[" "] * W for _ in range(H)]
    for x in range(k, k + w + 2):
        g[n][x] = "-"
        g[n + h + 1][x] = "-"
    for y in range(n, n + h + 2):
        g[y][k] = "|"
        g[y][k + w + 1] = "|"
    for (x, y) in ((k, n), (k + w + 1, n), (k, n + h + 1), (k + w + 1, n + h + 1)):
        g[y][x] = "+"
    for _ in range(r.randint(1, 4)):
        if r.random() < 0.5:
            y = r.randint(n + 1, n + h)
            x = r.choice([k, k + w + 1])
            side = r.choice(["both", "out", "in"])
            if side in ("both", "out"):
                g[y][x - 1 if x == k else x + 1] = "-"
                if r.random() < 0.5:
                    g[y][x - 2 if x == k else x + 2] = "-"
            if side in ("both", "in"):
                g[y][x + 1 if x == k else x - 1] = "-"
            if r.random() < 0.3:
                g[y][x] = "+"
        else:
            x = r.randint(k + 1, k + w)
            y = r.choice([n, n + h + 1])
            side = r.choice(["both", "out", "in"])
            if side in ("both", "out"):
                g[y - 1 if y == n else y + 1][x] = "|"
            if side in ("both", "in"):
                g[y + 1 if y == n else y - 1][x] = "|"
            if r.random() < 0.3:
                g[y][x] = "+"
    return "\n".join("".join(row).rstrip() for row in g)


def between_diagonals(r, block):
    """two long parallel diagonals with the block between them, touching neither, inside both their bounding boxes; returns
    (text, column, row) of the block's top-left cell.  (with x0 = 1: the first diagonal passes column row + 1, the second one
    column row + 1 + d)"""
    bw, bh = max(len(b) for b in block), len(block)
    # (one blank cell all around the block, the rows above and below included)
    d = bw + bh + 4 + r.randint(0, 2)
    L = d + bw + 1 + r.randint(0, 2)
    r0 = bw + 2
    c0 = 1 + d
    W = 1 + d + L + 1
    g = [[" "] * W for _ in range(L)]
    for i in range(L):
        g[i][1 + i] = "\\"
        g[i][1 + d + i] = "\\"
    for j, row in enumerate(block):
        for i, ch in enumerate(row):
            if ch != " ":
                g[r0 + j][c0 + i] = ch
    return "\n".join("".join(row).rstrip() for row in g), c0, r0


ARC_TOP_LEFT = ["    _.-''''", "  ,'", " /", ".", "|", "|"]           # the top left quarter of a large catalogue circle


def arc_and_box_page(r, block, frame=True):
    """a quarter arc of the catalogue and a box whose bounding boxes overlap without nesting, the block inside the box where the
    two overlap (touching nothing), optionally with a frame around everything: shapes recognised before the block that all
    'hold' it.  block: at most two rows.  returns (text, column, row) of the block"""
    bw, bh = max(len(b) for b in block), len(block)
    ox, oy = (3, 2) if frame else (r.randint(0, 2), r.randint(0, 1))
    page = {}

    def put(rows, dx, dy):
        for y, row in enumerate(rows):
            for x, ch in enumerate(row):
                if ch != " ":
                    page[(dx + x, dy + y)] = ch
    put(ARC_TOP_LEFT, ox, oy)
    iw, ih = bw + 2 + r.randint(0, 6), bh + 2
    put(["+" + "-" * iw + "+"] + ["|" + " " * iw + "|"] * ih + ["+" + "-" * iw + "+"], ox + 5, oy + 2)
    bx, by = ox + 5 + 2, oy + 2 + 2
    put(block, bx, by)
    W = max(x for x, _ in page) + 1
    H = max(y for _, y in page) + 1
    if frame:
        W, H = W + 3, H + 2
        put(["+" + "-" * (W - 2) + "+"], 0, 0)
        put(["+" + "-" * (W - 2) + "+"], 0, H - 1)
        for y in range(1, H - 1):
            page[(0, y)] = "|"
            page[(W - 1, y)] = "|"
    return "\n".join("".join(page.get((x, y), " ") for x in range(W)).rstrip() for y in range(H)), bx, by


def run_in_box_under_diagonal(r):
    """a long diagonal from the top left corner and, in the triangle under it, a box with a short free run inside (touching
    nothing): the run lies in the bounding boxes of two separate shapes that both come before it"""
    run = r.choice(["---", "--", "~~~", "==", "|", "___", "----"])
    iw, ih = len(run) + 2 + r.randint(0, 3), 3              # (a blank cell between the run and every wall)
    bw = iw + 2
    top = bw + 2 + r.randint(0, 2)              # the box's first row: the diagonal is already two columns to its right there
    L = top + ih + 2 + r.randint(1, 3)
    g = [[" "] * (L + 1) for _ in range(L)]
    for i in range(L):
        g[i][i] = r.choice(["\\"]) 
    x0 = r.randint(0, 1)
    for x in range(x0, x0 + bw):
        g[top][x] = "-"
        g[top + ih + 1][x] = "-"
    for y in range(top, top + ih + 2):
        g[y][x0] = "|"
        g[y][x0 + bw - 1] = "|"
    for (x, y) in ((x0, top), (x0 + bw - 1, top), (x0, top + ih + 1), (x0 + bw - 1, top + ih + 1)):
        g[y][x] = "+"
    ry = top + 1 + ih // 2
    if run == "|":
        g[ry][x0 + 2] = "|"
    else:
        for i, ch in enumerate(run):
            g[ry][x0 + 2 + i] = ch
    return "\n".join("".join(row).rstrip() for row in g)
