"""Stage-level conformance (binding C): recorded hook events -> PipelineTrace events."""
from . import common

MODELLED = set(" -~|:!+.',`_=/\\()><^vV*oOX#’")


class Inexact(Exception):
    pass


def L8(v):
    x = v * 8
    if abs(x - round(x)) > 1e-6:
        raise Inexact()
    return int(round(x))


def pt(p):
    return [L8(p[0]), L8(p[1])]


def frag(fs):
    f = fs["f"] if "f" in fs and isinstance(fs["f"], dict) else fs
    cells = [[c[0], c[1]] for c in fs.get("cells", [])]
    k = f["k"]
    if k == "line":
        return {"k": "L", "s": pt(f["s"]), "e": pt(f["e"]), "b": f["b"], "cells": cells}
    if k == "arc":
        return {"k": "A", "s": pt(f["s"]), "e": pt(f["e"]), "r": L8(f["r"]), "sw": f["sweep"], "mj": f["major"], "cells": cells}
    if k == "polygon":
        import math
        # (to the lattice unit below, as Glyphs.tla records the filled box of '#')
        return {"k": "P", "pts": [[int(math.floor(p[0] * 8 + 1e-6)), int(math.floor(p[1] * 8 + 1e-6))] for p in f["pts"]], "cells": cells}
    if k == "circle":
        return {"k": "C", "c": pt(f["c"]), "r": L8(f["r"]), "f": f["f"], "cells": cells}
    if k == "mline":
        if f["sm"]:
            raise Inexact()
        return {"k": "M", "s": pt(f["s"]), "e": pt(f["e"]), "b": f["b"],
                "em": {"Circle": "circle", "OpenCircle": "open_circle", "BigOpenCircle": "big_open_circle"}.get(f["em"], f["em"]), "cells": cells}
    if k == "rect":
        return {"k": "R", "s": pt(f["s"]), "e": pt(f["e"]), "r": L8(f["r"]), "b": f["b"], "f": f["f"], "cells": cells}
    if k == "ctext":
        return {"k": "T", "cell": f["c"], "t": f["t"], "cells": cells}
    raise Inexact()


UNICODE_MODELLED = None


def in_domain(text):
    """the mechanism model covers the characters of Glyphs!Modelled plus non-drawing labels"""
    global UNICODE_MODELLED
    from . import gen
    if UNICODE_MODELLED is None:
        import re, os
        t = open(os.path.join(common.SPEC, "UnicodeGlyphs.tla")).read()
        UNICODE_MODELLED = set(chr(int(x)) for x in re.search(r"UnicodeChars == \{([^}]*)\}", t).group(1).split(","))
    return all(ch in MODELLED or ch == "\n" or ch in gen.LABELS or ch in UNICODE_MODELLED for ch in text)


def tup(f):
    """a fragment as the enclosure stage sees it (already scaled: at the default scale its numbers are lattice units) ->
    the element tuple of PipelineOps!Strip"""
    def n(v):
        if abs(v - round(v)) > 1e-6:
            raise Inexact()
        return int(round(v))
    k = f["k"]
    if k == "line":
        return ["line", n(f["s"][0]), n(f["s"][1]), n(f["e"][0]), n(f["e"][1]), f["b"], ""]
    if k == "mline":
        if f["sm"]:
            raise Inexact()
        em = {"Circle": "circle", "OpenCircle": "open_circle", "BigOpenCircle": "big_open_circle"}.get(f["em"], f["em"])
        return ["line", n(f["s"][0]), n(f["s"][1]), n(f["e"][0]), n(f["e"][1]), f["b"], "end_marked_" + em]
    if k == "arc":
        return ["path", n(f["s"][0]), n(f["s"][1]), n(f["r"]), f["sweep"], n(f["e"][0]), n(f["e"][1]), f["major"]]
    if k == "circle":
        return ["circle", n(f["c"][0]), n(f["c"][1]), n(f["r"]), f["f"]]
    if k == "polygon":
        import math
        return ["polygon"] + [int(math.floor(v + 1e-6)) for p in f["pts"] for v in p]
    if k == "rect":
        return ["rect", n(f["s"][0]), n(f["s"][1]), n(f["e"][0]) - n(f["s"][0]), n(f["e"][1]) - n(f["s"][1]), n(f["r"]), f["b"], f["f"]]
    if k == "text":
        return ["text", n(f["s"][0]), n(f["s"][1]), f["t"]]
    raise Inexact()


def flat_trees(trees, out):
    for t in trees:
        out.append([tup(t["f"]), t["tags"]])
        flat_trees(t["in"], out)
    return out


def events_of(stages):
    """hook events of one conversion -> PipelineTrace events (may raise Inexact)"""
    out = []
    for st in stages:
        s = st["stage"]
        if s == "cells":
            out.append({"ev": "cells", "rows": st["rows"], "cells": st["cells"]})
        elif s == "spans":
            out.append({"ev": "spans", "spans": [[[c[0], c[1]] for c in sp] for sp in st["spans"]]})
        elif s == "circle":
            out.append({"ev": "circle", "span": [[c[0], c[1]] for c in st["span"]], "accepted": [frag(f) for f in st["accepted"]],
                        "rest": [[c[0], c[1]] for c in st["rest"]]})
        elif s == "merged":
            out.append({"ev": "merged", "span": [[c[0], c[1]] for c in st["span"]], "frags": [frag(f) for f in st["frags"]]})
        elif s == "contacts":
            out.append({"ev": "contacts", "groups": [[frag(f) for f in g] for g in st["groups"]]})
        elif s == "rects":
            out.append({"ev": "rects", "accepted": [frag(f) for f in st["accepted"]],
                        "rejects": [[frag(f) for f in g] for g in st["rejects"]]})
        elif s == "reendorse":
            out.append({"ev": "reendorse", "accepted": [frag(f) for f in st["accepted"]],
                        "rejects": [[[c[0], c[1]] for c in sp] for sp in st["rejects"]]})
        elif s == "regroup":
            out.append({"ev": "regroup", "free": [frag(f) for f in st["free"]], "groups": [[frag(f) for f in g] for g in st["groups"]]})
        elif s == "enclose":
            out.append({"ev": "enclose", "items": [tup(f["f"]) for f in st["input"]], "flat": flat_trees(st["trees"], [])})
    return out


def conformance(run, texts, tag="stg"):
    """run texts with stage recording, validate with PipelineTrace; mismatches are drift"""
    from . import observe
    texts = [t for t in texts if in_domain(t) and t.strip()]
    if not texts:
        return
    obs = observe.observe([{"input": t} for t in texts], tag=tag, stages=True)
    events, owner = [], []
    for t, o in zip(texts, obs):
        try:
            evs = events_of(o["stages"])
        except Inexact:
            run.drift += 1
            continue
        for e in evs:
            events.append(e)
            owner.append(t)
    # shards must start at a "cells" event
    for e in events:
        if e["ev"] != "cells":
            e["rel"] = 1
    res = common.validate_trace(events, module="PipelineTrace", cfg="PipelineTrace.cfg", shard=3000, tag=run.prop + "stg")
    run.states += res["states"]
    run.transitions += res["transitions"]
    stage_bad = {}
    for idx, what in res["bad"]:
        stage_bad[what] = stage_bad.get(what, 0) + 1
        run.drift += 1
        if len(run.drift_samples) < 5:
            run.drift_samples.append({"input": owner[idx], "stage": what})
    run.notes["stage_events_validated"] = run.notes.get("stage_events_validated", 0) + len(events)
    run.notes["stage_conversions"] = run.notes.get("stage_conversions", 0) + len(texts)
    run.notes["stage_mismatches"] = stage_bad
    run.notes["stage_invariant_evaluations"] = run.notes.get("stage_invariant_evaluations", 0) + res["nontrivial"]
    common.log("[stages] %s: %d conversions, %d stage events validated, mismatches %s" % (run.prop, len(texts), len(events), stage_bad))
