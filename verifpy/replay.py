"""./check <Cxx> --replay <file>: re-run exactly the recorded case against /repo's current tree.
Document-level and relational records are re-observed and re-validated by the trace specification
with only the recorded predicate; for the service / shell properties (C07, C19, C20) the record is
re-run through the property's own driver."""
import json

from . import common, observe, props


def case_of(rec, text=None):
    c = {"input": rec["input"] if text is None else text, "entry": rec.get("entry") or "to_svg", "want_style": True}
    if rec.get("settings") is not None and c["entry"] in ("settings", "override"):
        c["settings"] = rec["settings"]
    ev = rec.get("event", {})
    if c["entry"] == "override" and "rel" in ev and "w" in ev["rel"]:
        c["w"], c["h"] = ev["rel"]["w"] / 1000.0, ev["rel"]["h"] / 1000.0
    return c


def replay(prop, path):
    rec = json.load(open(path))
    pred = rec.get("predicate", prop)
    ev0 = rec.get("event", {})
    if prop in ("C07", "C19", "C20") or "input" not in rec:
        common.log("[replay] %s: service/shell record - re-running the property's quick check" % prop)
        return props.PLANS[prop]("quick")
    events = []
    if "rel" in ev0 and ev0["rel"].get("kind") not in (None, "none"):
        bases = rec.get("bases")
        if not bases:
            common.log("[replay] relational record without its base inputs - re-running the quick check")
            return props.PLANS[prop]("quick")
        obs = observe.observe([b for b in bases] + [case_of(rec)], tag="replay")
        for b, o in zip(bases, obs[:-1]):
            e = {"props": [], "rows": o["rows"], "doc": o["doc"], "sha": ""}
            events.append(e)
        for k in range(1, len(events)):
            events[k]["rel"] = {"kind": "none"}
        o = obs[-1]
        rel = dict(ev0["rel"])
        # backward distances: the bases directly precede the event
        if "of2" in rel:
            rel["of"], rel["of2"] = 2, 1
        else:
            rel["of"] = len(bases)
        events.append({"props": [pred], "rows": o["rows"], "doc": o["doc"], "rel": rel, "sha": ""})
    else:
        o = observe.observe([case_of(rec)], tag="replay")[0]
        e = {k: v for k, v in ev0.items() if k not in ("rows", "doc", "props")}
        e.update({"props": [pred] + (["C12x"] if pred == "C12" else []), "rows": o["rows"], "doc": o["doc"]})
        if "clsmap" in e:
            e["clsmap"] = props.clsmap_of(o["doc"])
        if "out" in ev0:
            e["out"] = o["out"]
            e["work"] = o["work"] or [0, 0, 0, 0, 0]
            e["doc"] = {"wf": o["doc"].get("wf", 0)}
        events.append(e)
    res = common.validate_trace(events, tag="replay")
    bad = [p for (_, p) in res["bad"] if p == pred]
    if bad:
        cause = None
        if pred == "C12" and not any(p == "C12x" for (_, p) in res["bad"]):
            cause = "quoted-text-not-in-bounds"
        r2 = dict(rec)
        r2["cause"] = cause
        f = common.match_finding(prop, r2)
        if f is not None:
            print("KNOWN-FINDING: property=%s %s" % (prop, f["what"]))
            return 0
        print("VIOLATION property=%s replay=%s" % (prop, path))
        return 1
    print("replay: the recorded case satisfies %s on the current tree" % pred)
    return 0
