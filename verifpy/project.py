"""Abstraction function: SVG text -> abstract document (DESIGN.md 3.1).

Purely syntactic: the output string is parsed with expat (a conforming XML parser); elements,
attributes, character data, comments, processing instructions are recorded as they come.
Numeric attributes are parsed exactly as decimal rationals, divided exactly by scale/8 of the
call that produced them and written as integers in 1/1000 lattice unit (1 lattice unit = 1/8
cell width; a cell is 8 x 16).  Nothing is repaired, reordered or guessed: an unparseable
document is projected to {"wf": 0, "error": ...}.
"""
import re
import struct
import xml.parsers.expat
from fractions import Fraction

SVG_NS = "http://www.w3.org/2000/svg"
INT_MAX = 2_000_000_000

X, Y, L = 0, 1, 2  # roles: x-like, y-like, length


def f32(v):
    """the f32 nearest to python float v, as an exact Fraction"""
    return Fraction(struct.unpack("f", struct.pack("f", float(v)))[0])


class Num:
    """exact conversion of decimal strings to milli-lattice integers"""

    def __init__(self, scale=8.0):
        self.k = Fraction(8000) / f32(scale)
        self.inexact = 0      # numbers that are not integers in milli units
        self.bad = 0          # strings that are not numbers
        self.overflow = 0

    def __call__(self, s):
        try:
            v = Fraction(s.strip())
        except (ValueError, ZeroDivisionError):
            self.bad += 1
            return 0
        m = v * self.k
        r = round(m)
        if r != m:
            self.inexact += 1
        if abs(r) > INT_MAX:
            self.overflow += 1
            r = INT_MAX if r > 0 else -INT_MAX
        return int(r)


PATH_RE = re.compile(
    r"^M ([-\d.eE+]+),([-\d.eE+]+) A ([-\d.eE+]+),([-\d.eE+]+) (\d+),(\d+),(\d+) ([-\d.eE+]+),([-\d.eE+]+)$")


def cps(s):
    return [ord(c) for c in s]


def project(svg, scale=8.0, want_style=False, want_raw=False):
    num = Num(scale)
    doc = {"wf": 1, "w": 0, "h": 0, "rootcls": [], "ns": 0, "nroot": 0,
           "elems": [], "nstyle": 0, "ndefs": 0, "nbackdrop": 0, "markers": [],
           "foreign": [],       # element names outside svgbob's vocabulary, misplaced nodes
           "attrs_foreign": [],  # [element, attribute] outside the per-element vocabulary
           "comments": 0, "pis": 0, "doctype": 0, "cdata": 0, "entities": 0,
           "stray_text": 0,      # non-whitespace character data outside text/style
           "order": [],          # top-level child element names, in order
           "style": [], "stylelen": 0,
           "badnum": 0, "inexact": 0, "overflow": 0, "whnum": 1,
           "backdrop": [], "ws_between": 0,
           "clstok": [],      # distinct class tokens, as code points
           "namestok": []}    # distinct element names, attribute names and non-class attribute values
    stack = []       # element names
    cur_text = None  # collecting char data for text/style
    group_no = [0]
    in_defs = [0]
    style_parts = []

    ATTRS = {
        "svg": {"xmlns", "width", "height", "class"},
        "style": set(), "defs": set(), "g": set(),
        "marker": {"id", "viewBox", "refX", "refY", "markerWidth", "markerHeight", "orient"},
        "polygon": {"points", "class"},
        "circle": {"cx", "cy", "r", "class"},
        "rect": {"x", "y", "width", "height", "class", "rx", "ry"},
        "line": {"x1", "y1", "x2", "y2", "class"},
        "path": {"d", "class"},
        "text": {"x", "y", "class"},
    }

    tokens = set()
    names = set()

    def start(name, attrs):
        nonlocal cur_text
        depth = len(stack)
        names.add(name)
        for a_, v_ in attrs.items():
            names.add(a_)
            if a_ == "class":
                tokens.update(v_.split())
            elif not re.match(r"^[-\d., MAe+]*$", v_):
                names.add(v_)
        ns_ok = name.startswith(SVG_NS + " ")
        local = name.split(" ", 1)[1] if " " in name else name
        if not ns_ok:
            doc["foreign"].append(local)
        stack.append(local)
        if local not in ATTRS:
            if ns_ok:
                doc["foreign"].append(local)
            return
        for a in attrs:
            if a not in ATTRS[local]:
                doc["attrs_foreign"].append([local, a])
        cls = attrs.get("class", "").split()
        if depth == 0:
            doc["nroot"] += 1
            if local == "svg" and ns_ok:
                doc["ns"] = 1
            doc["rootcls"] = cls
            for key in ("width", "height"):
                v = attrs.get(key)
                try:
                    Fraction(v.strip())
                except Exception:
                    doc["whnum"] = 0
            doc["w"] = num(attrs.get("width", "x"))
            doc["h"] = num(attrs.get("height", "x"))
            return
        if depth == 1:
            doc["order"].append(local)
        if local == "style":
            doc["nstyle"] += 1
            cur_text = []
            if depth != 1:
                doc["foreign"].append("style@%d" % depth)
            return
        if local == "defs":
            doc["ndefs"] += 1
            in_defs[0] += 1
            if depth != 1:
                doc["foreign"].append("defs@%d" % depth)
            return
        if in_defs[0]:
            # marker definitions, in 1/64 of their own units (they are not user-space lengths and are never divided by
            # the scale): [id, viewBox w, h, refX, refY, markerWidth, markerHeight] and the shape inside
            def m64(v):
                try:
                    return int(round(float(Fraction(v.strip()) * 64)))
                except Exception:
                    return -1
            if local == "marker":
                vb = (attrs.get("viewBox", "") + " x x x x").replace(",", " ").split()[:4]
                doc["markers"].append({"id": cps(attrs.get("id", "")), "vb": [m64(x) for x in vb],
                                       "ref": [m64(attrs.get("refX", "x")), m64(attrs.get("refY", "x"))],
                                       "size": [m64(attrs.get("markerWidth", "x")), m64(attrs.get("markerHeight", "x"))],
                                       "shape": "", "n": [], "cls": []})
            elif doc["markers"] and local in ("circle", "polygon"):
                mk = doc["markers"][-1]
                mk["shape"] = local
                mk["cls"] = cls
                if local == "circle":
                    mk["n"] = [m64(attrs.get(a, "x")) for a in ("cx", "cy", "r")]
                else:
                    mk["n"] = [m64(v) for pt_ in attrs.get("points", "").split() for v in pt_.split(",")]
            return
        if local == "g":
            group_no[0] += 1
            if depth != 1:
                doc["foreign"].append("g@%d" % depth)
            return
        if local == "marker":
            doc["foreign"].append("marker-outside-defs")
            return
        g = group_no[0] if (depth == 2 and stack[1] == "g") else 0
        if depth > 2 or (depth == 2 and stack[1] != "g"):
            doc["foreign"].append("%s@%d" % (local, depth))
        e = {"k": local, "n": [], "role": [], "fl": [], "cls": cls, "s": [], "g": g}
        if local == "line":
            e["n"] = [num(attrs.get(a, "x")) for a in ("x1", "y1", "x2", "y2")]
            e["role"] = [X, Y, X, Y]
        elif local == "rect":
            e["n"] = [num(attrs.get(a, "x")) for a in ("x", "y", "width", "height")]
            e["role"] = [X, Y, L, L]
            e["n"].append(num(attrs.get("rx", "0")))
            e["role"].append(L)
            if "ry" in attrs:
                e["n"].append(num(attrs["ry"]))
                e["role"].append(L)
            if "backdrop" in cls and depth == 1:
                doc["nbackdrop"] += 1
                doc["backdrop"] = e["n"][:4]
                stack[-1] = "rect#backdrop"
                doc["order"][-1] = "rect#backdrop"
                return
        elif local == "circle":
            e["n"] = [num(attrs.get(a, "x")) for a in ("cx", "cy", "r")]
            e["role"] = [X, Y, L]
        elif local == "polygon":
            pts = attrs.get("points", "").split()
            for p in pts:
                xy = p.split(",")
                if len(xy) != 2:
                    num.bad += 1
                    continue
                e["n"] += [num(xy[0]), num(xy[1])]
                e["role"] += [X, Y]
        elif local == "path":
            m = PATH_RE.match(attrs.get("d", ""))
            if not m:
                num.bad += 1
            else:
                x1, y1, rx, ry, rot, large, sweep, x2, y2 = m.groups()
                e["n"] = [num(x1), num(y1), num(rx), num(ry), num(x2), num(y2)]
                e["role"] = [X, Y, L, L, X, Y]
                e["fl"] = [int(rot), int(large), int(sweep)]
        elif local == "text":
            e["n"] = [num(attrs.get("x", "x")), num(attrs.get("y", "x"))]
            e["role"] = [X, Y]
            cur_text = []
        doc["elems"].append(e)

    def end(name):
        nonlocal cur_text
        local = stack.pop()
        if local == "text" and cur_text is not None and not in_defs[0]:
            doc["elems"][-1]["s"] = cps("".join(cur_text))
            cur_text = None
        elif local == "style" and cur_text is not None:
            style_parts.append("".join(cur_text))
            cur_text = None
        elif local == "defs":
            in_defs[0] -= 1

    def chars(data):
        if cur_text is not None and stack and stack[-1] in ("text", "style"):
            cur_text.append(data)
        elif data.strip():
            doc["stray_text"] += 1
        else:
            doc["ws_between"] += 1

    p = xml.parsers.expat.ParserCreate(namespace_separator=" ")
    p.buffer_text = True
    p.StartElementHandler = start
    p.EndElementHandler = end
    p.CharacterDataHandler = chars

    def inc(key):
        def h(*a):
            doc[key] += 1
        return h
    p.CommentHandler = inc("comments")
    p.ProcessingInstructionHandler = inc("pis")
    p.StartDoctypeDeclHandler = inc("doctype")
    p.StartCdataSectionHandler = inc("cdata")
    p.SkippedEntityHandler = inc("entities")
    p.EntityDeclHandler = inc("entities")
    try:
        p.Parse(svg, True)
    except xml.parsers.expat.ExpatError as ex:
        # every field a trace predicate may look at is present (empty), so that an ill-formed document makes predicates
        # false instead of making their evaluation fail
        return {"wf": 0, "error": str(ex)[:200], "w": 0, "h": 0, "rootcls": [], "ns": 0, "nroot": 0, "elems": [],
                "nstyle": 0, "ndefs": 0, "nbackdrop": 0, "foreign": [], "attrs_foreign": [], "comments": 0, "pis": 0,
                "doctype": 0, "cdata": 0, "entities": 0, "entityrefs": 0, "stray_text": 0, "order": [], "style": [],
                "stylelen": 0, "badnum": 0, "inexact": 0, "overflow": 0, "whnum": 0, "backdrop": [], "ws_between": 0,
                "clstok": [], "namestok": [], "markers": [], "css": []}
    # literal entity references other than the five predefined ones and numeric ones
    doc["entityrefs"] = len([m for m in re.findall(r"&([^;\s]{1,32});", svg)
                             if m not in ("lt", "gt", "amp", "apos", "quot") and not m.startswith("#")])
    doc["clstok"] = [cps(t) for t in sorted(tokens)]
    doc["namestok"] = [cps(t) for t in sorted(names)]
    style = "".join(style_parts)
    doc["stylelen"] = len(style)
    if want_style:
        doc["style"] = [cps(line) for line in style.split("\n")]
        # the same text cut into rules, purely syntactically (no nested blocks in this sheet): [selector, [[property, value]]]
        # with blanks around the tokens removed - for predicates that must not depend on how the sheet is laid out
        css = []
        for block in style.split("}"):
            if "{" not in block:
                continue
            sel, _, body = block.partition("{")
            decls = []
            for d in body.split(";"):
                if ":" in d:
                    pr, _, va = d.partition(":")
                    decls.append([cps(pr.strip()), cps(va.strip())])
            css.append([cps(" ".join(sel.split())), decls])
        doc["css"] = css
    if want_raw:
        doc["_style_text"] = style
    doc["badnum"] = num.bad
    doc["inexact"] = num.inexact
    doc["overflow"] = num.overflow
    return doc
